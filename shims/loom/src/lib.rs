//! Stand-in for the part of loom's API that cordyceps (`cfg(loom)`) and diatomic-waker
//! (`cfg(diatomic_waker_loom)`) use, mapped onto shuttle: every atomic operation becomes a
//! scheduling point of shuttle's seeded scheduler. This is *not* loom's model checker.

pub mod sync {
    pub use shuttle::sync::*;
    pub mod atomic {
        pub use shuttle::sync::atomic::*;
    }
}

pub mod hint {
    pub use shuttle::hint::*;
}

pub mod thread {
    pub use shuttle::thread::*;
}

pub fn model<F>(_f: F)
where
    F: Fn() + Sync + Send + 'static,
{
    unimplemented!("loom stand-in: use the shuttle runner")
}

pub mod alloc {
    /// No-op stand-in for `loom::alloc::Track`.
    #[derive(Debug, Default)]
    pub struct Track<T>(T);
    impl<T> Track<T> {
        pub fn new(value: T) -> Self {
            Track(value)
        }
        pub fn get_ref(&self) -> &T {
            &self.0
        }
        pub fn get_mut(&mut self) -> &mut T {
            &mut self.0
        }
        pub fn into_inner(self) -> T {
            self.0
        }
    }
}

pub mod cell {
    use std::sync::atomic::{AtomicIsize, AtomicU64, Ordering};

    /// Number of overlapping-access violations seen (exclusive section overlapping any other).
    pub static OVERLAPS: AtomicU64 = AtomicU64::new(0);

    /// `loom::cell::UnsafeCell` stand-in. Under shuttle only one thread runs at a time, so plain
    /// counters suffice to notice that a `with_mut` section overlaps another section of the same
    /// cell (the closures contain scheduling points). An overlap is an exclusive-access race under
    /// sequential consistency: it panics, which shuttle reports together with the schedule.
    #[derive(Debug)]
    pub struct UnsafeCell<T> {
        data: std::cell::UnsafeCell<T>,
        /// > 0: that many shared sections; -1: one exclusive section
        state: AtomicIsize,
    }

    unsafe impl<T: Send> Send for UnsafeCell<T> {}
    unsafe impl<T: Send> Sync for UnsafeCell<T> {}

    impl<T> UnsafeCell<T> {
        pub fn new(data: T) -> Self {
            UnsafeCell {
                data: std::cell::UnsafeCell::new(data),
                state: AtomicIsize::new(0),
            }
        }

        pub fn with<F, R>(&self, f: F) -> R
        where
            F: FnOnce(*const T) -> R,
        {
            let s = self.state.load(Ordering::Relaxed);
            if s < 0 {
                OVERLAPS.fetch_add(1, Ordering::Relaxed);
                panic!("UnsafeCell: shared access overlaps an exclusive access (data race under SC)");
            }
            self.state.store(s + 1, Ordering::Relaxed);
            struct G<'a>(&'a AtomicIsize);
            impl Drop for G<'_> {
                fn drop(&mut self) {
                    self.0.fetch_sub(1, Ordering::Relaxed);
                }
            }
            let _g = G(&self.state);
            f(self.data.get())
        }

        pub fn with_mut<F, R>(&self, f: F) -> R
        where
            F: FnOnce(*mut T) -> R,
        {
            let s = self.state.load(Ordering::Relaxed);
            if s != 0 {
                OVERLAPS.fetch_add(1, Ordering::Relaxed);
                panic!("UnsafeCell: exclusive access overlaps another access (data race under SC)");
            }
            self.state.store(-1, Ordering::Relaxed);
            struct G<'a>(&'a AtomicIsize);
            impl Drop for G<'_> {
                fn drop(&mut self) {
                    self.0.store(0, Ordering::Relaxed);
                }
            }
            let _g = G(&self.state);
            f(self.data.get())
        }

        pub fn get_mut(&mut self) -> *mut T {
            self.data.get()
        }
    }
}
