//! Stand-in for `spin::mutex::SpinMutex`: the same spin lock, but on a shuttle `AtomicBool`, so
//! that acquiring, spinning and releasing are scheduling points of shuttle's seeded scheduler.

pub mod mutex {
    pub use self::spin::{SpinMutex, SpinMutexGuard};

    pub mod spin {
        use core::cell::UnsafeCell;
        use core::ops::{Deref, DerefMut};
        use shuttle::sync::atomic::{AtomicBool, Ordering};

        pub struct SpinMutex<T: ?Sized> {
            lock: AtomicBool,
            data: UnsafeCell<T>,
        }

        pub struct SpinMutexGuard<'a, T: ?Sized + 'a> {
            lock: &'a AtomicBool,
            data: *mut T,
        }

        unsafe impl<T: ?Sized + Send> Sync for SpinMutex<T> {}
        unsafe impl<T: ?Sized + Send> Send for SpinMutex<T> {}

        impl<T> SpinMutex<T> {
            pub fn new(data: T) -> Self {
                SpinMutex {
                    lock: AtomicBool::new(false),
                    data: UnsafeCell::new(data),
                }
            }
        }

        impl<T: ?Sized> SpinMutex<T> {
            pub fn lock(&self) -> SpinMutexGuard<'_, T> {
                while self
                    .lock
                    .compare_exchange_weak(false, true, Ordering::Acquire, Ordering::Relaxed)
                    .is_err()
                {
                    while self.lock.load(Ordering::Relaxed) {
                        shuttle::hint::spin_loop();
                    }
                }
                SpinMutexGuard {
                    lock: &self.lock,
                    data: self.data.get(),
                }
            }
        }

        impl<T: ?Sized> Deref for SpinMutexGuard<'_, T> {
            type Target = T;
            fn deref(&self) -> &T {
                unsafe { &*self.data }
            }
        }
        impl<T: ?Sized> DerefMut for SpinMutexGuard<'_, T> {
            fn deref_mut(&mut self) -> &mut T {
                unsafe { &mut *self.data }
            }
        }
        impl<T: ?Sized> Drop for SpinMutexGuard<'_, T> {
            fn drop(&mut self) {
                self.lock.store(false, Ordering::Release);
            }
        }
    }
}
