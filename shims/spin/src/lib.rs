//! Stand-in for `spin::mutex::SpinMutex`: the same spin lock, but on a shuttle `AtomicBool`, so
//! that acquiring, spinning and releasing are scheduling points of shuttle's seeded scheduler.

pub mod mutex {
    pub use self::spin::{SpinMutex, SpinMutexGuard};

    pub mod spin {
        use core::cell::UnsafeCell;
        use core::ops::{Deref, DerefMut};
        use shuttle::sync::atomic::{AtomicBool, Ordering};

        pub struct SpinMutex<T: ?Sized> {
            lock: AtomicBool,
            data: UnsafeCell<T>,
        }

        pub struct SpinMutexGuard<'a, T: ?Sized + 'a> {
            lock: &'a AtomicBool,
            data: *mut T,
        }

        unsafe impl<T: ?Sized + Send> Sync for SpinMutex<T> {}
        unsafe impl<T: ?Sized + Send> Send for SpinMutex<T> {}

        impl<T> SpinMutex<T> {
            pub fn new(data: T) -> Self {
                SpinMutex {
                    lock: AtomicBool::new(false),
                    data: UnsafeCell::new(data),
                }
            }
        }

        impl<T> SpinMutex<T> {
            pub fn into_inner(self) -> T {
                self.data.into_inner()
            }
        }

        impl<T: ?Sized> SpinMutex<T> {
            /// Exclusive access without locking (the real crate offers it too).
            pub fn get_mut(&mut self) -> &mut T {
                // a scheduling point: whoever uses this believes nobody else is around
                shuttle::thread::sleep(std::time::Duration::ZERO);
                self.data.get_mut()
            }
            pub fn is_locked(&self) -> bool {
                let l = self.lock.load(Ordering::Relaxed);
                if l {
                    // whoever sees `true` is likely to ask again: tell the scheduler it is a spin
                    // wait, so that a priority scheduler lets the holder run
                    shuttle::hint::spin_loop();
                }
                l
            }
            pub fn try_lock(&self) -> Option<SpinMutexGuard<'_, T>> {
                if self
                    .lock
                    .compare_exchange(false, true, Ordering::Acquire, Ordering::Relaxed)
                    .is_ok()
                {
                    Some(SpinMutexGuard {
                        lock: &self.lock,
                        data: self.data.get(),
                    })
                } else {
                    shuttle::hint::spin_loop();
                    None
                }
            }
            /// # Safety
            /// Same contract as the real crate's `force_unlock`.
            pub unsafe fn force_unlock(&self) {
                self.lock.store(false, Ordering::Release);
            }
            pub fn lock(&self) -> SpinMutexGuard<'_, T> {
                while self
                    .lock
                    .compare_exchange_weak(false, true, Ordering::Acquire, Ordering::Relaxed)
                    .is_err()
                {
                    while self.lock.load(Ordering::Relaxed) {
                        shuttle::hint::spin_loop();
                    }
                }
                SpinMutexGuard {
                    lock: &self.lock,
                    data: self.data.get(),
                }
            }
        }

        impl<T: ?Sized> Deref for SpinMutexGuard<'_, T> {
            type Target = T;
            fn deref(&self) -> &T {
                unsafe { &*self.data }
            }
        }
        impl<T: ?Sized> DerefMut for SpinMutexGuard<'_, T> {
            fn deref_mut(&mut self) -> &mut T {
                unsafe { &mut *self.data }
            }
        }
        impl<T: ?Sized> Drop for SpinMutexGuard<'_, T> {
            fn drop(&mut self) {
                self.lock.store(false, Ordering::Release);
            }
        }
    }
}
