//! Scripted children: futures, merge sources and adapter upstreams. All behaviour comes from the
//! world; these types only carry identity and report every poll and drop (with their address).

use crate::flags::F;
use crate::world::*;
use futures_core::Stream;
use std::future::Future;
use std::marker::{PhantomData, PhantomPinned};
use std::pin::Pin;
use std::task::{Context, Poll, Waker};

pub struct WorkCapExceeded;
/// Payload of a scripted child panic.
pub struct ChildPanic(pub u32);

// ------------------------------------------------------------------------------------------
// invocation helpers (never called inside `with`)

/// Invoke a waker that was handed to `child`; ledger first, then the crate's vtable.
pub fn invoke_ref(child: u32, w: &Waker) {
    with(|wd| wd.note_invocation(child));
    crate::flags::in_crate(|| w.wake_by_ref());
}
pub fn invoke_val(child: u32, w: Waker) {
    with(|wd| wd.note_invocation(child));
    crate::flags::in_crate(|| w.wake());
}

// ------------------------------------------------------------------------------------------

fn poll_common(id: u32, addr: usize, w: &mut World) -> bool {
    // returns false if the poll must be ignored (already finished)
    let poll_no = w.poll_no;
    let in_poll = F.with(|f| f.in_subject_poll.get());
    w.log(0x10, id as u64);
    w.child_polls_call += 1;
    w.child_polls_total += 1;
    let stale_credits = w.stale_credits;
    let c = &mut w.children[id as usize];
    let mut viol: Vec<(&'static str, &'static str, String)> = vec![];
    if c.panicked {
        // polling a future again after it panicked is the caller's business, not a violation
        return false;
    }
    if !in_poll {
        viol.push((
            "C12",
            "poll-outside-subject-poll",
            format!("child {} polled outside a poll of its owner", id),
        ));
    }
    if c.completed_at.is_some() {
        viol.push((
            "C05",
            "polled-after-completion",
            format!(
                "child {} polled again in poll #{} after it finished in poll #{}",
                id,
                poll_no,
                c.completed_at.unwrap()
            ),
        ));
        for (p, o, d) in viol {
            w.violate(p, o, d);
        }
        return false;
    }
    if c.polls == 0 {
        c.first_addr = addr;
    } else if c.first_addr != addr {
        viol.push((
            "C08",
            "moved-between-polls",
            format!("child {} polled at a different address than its first poll", id),
        ));
    }
    c.polls += 1;
    // C12: every poll needs a justification
    if c.credits > 0 {
        c.credits = 0;
    } else if stale_credits > 0 {
        w.stale_credits -= 1;
    } else {
        viol.push((
            "C12",
            "unjustified-poll",
            format!(
                "child {} polled (poll #{}) although it was neither newly pushed nor woken since its last poll",
                id, poll_no
            ),
        ));
    }
    let c = &mut w.children[id as usize];
    if c.needs_poll {
        let k = (c.needs_since, id);
        w.owed_polls.remove(&k);
    }
    let c = &mut w.children[id as usize];
    c.needs_poll = false;
    c.needs_by_wake = false;
    for (p, o, d) in viol {
        w.violate(p, o, d);
    }
    true
}

enum Act {
    Ignore,
    Panic,
    Complete { wake: bool, fail: bool },
    Item { seq: u32, wake: bool },
    Pending { store: bool, selfwake: bool, cross: Option<(u32, Waker)> },
}

fn pending_act(id: u32, w: &mut World, cx: &Context<'_>) -> Act {
    let frozen = w.frozen;
    let c = &mut w.children[id as usize];
    let store = match c.beh.store {
        1 => c.stored.as_ref().map_or(true, |s| !s.will_wake(cx.waker())),
        _ => true,
    };
    let mut selfwake = false;
    if !frozen && c.selfwake_left > 0 {
        if c.selfwake_left != INF {
            c.selfwake_left -= 1;
        }
        selfwake = true;
    }
    let cross_sel = if frozen { None } else { c.beh.cross };
    let mut cross = None;
    if let Some(sel) = cross_sel {
        let live: Vec<u32> = w
            .live_children()
            .into_iter()
            .filter(|&o| o != id && w.children[o as usize].stored.is_some())
            .collect();
        if !live.is_empty() {
            let o = live[sel as usize % live.len()];
            cross = Some((o, w.children[o as usize].stored.clone().unwrap()));
            w.faults[FA_CROSS] += 1;
        }
    }
    if selfwake {
        w.faults[FA_SELF] += 1;
    }
    Act::Pending {
        store,
        selfwake,
        cross,
    }
}

fn check_work_cap() {
    let over = with(|w| w.child_polls_call > w.work_cap);
    if over {
        F.with(|f| f.quiet_panic.set(true));
        std::panic::panic_any(WorkCapExceeded);
    }
}

fn do_pending(id: u32, cx: &mut Context<'_>, store: bool, selfwake: bool, cross: Option<(u32, Waker)>) {
    if store {
        let nw = cx.waker().clone();
        let old = with(|w| w.children[id as usize].stored.replace(nw));
        drop(old);
    }
    if selfwake {
        with(|w| w.note_invocation(id));
        cx.waker().wake_by_ref();
    }
    if let Some((o, wk)) = cross {
        with(|w| w.note_invocation(o));
        wk.wake();
    }
}

/// Poll of a scripted future. Returns the output token and whether it is a failure.
pub fn fut_poll(id: u32, addr: usize, cx: &mut Context<'_>) -> Poll<(Tok, bool)> {
    if F.with(|f| f.aborting.get()) {
        return Poll::Pending;
    }
    check_work_cap();
    let act = with(|w| {
        if !poll_common(id, addr, w) {
            return Act::Ignore;
        }
        let poll_no = w.poll_no;
        let c = &mut w.children[id as usize];
        if c.ready && c.beh.panics {
            c.panicked = true;
            c.completed_at = Some(poll_no);
            w.no_longer_live(id);
            w.child_panics += 1;
            w.faults[FA_PANIC] += 1;
            if let Some(wk) = w.children[id as usize].stored.take() {
                w.wakers.push(HeldWaker { child: id, waker: wk });
            }
            w.log(0x19, id as u64);
            return Act::Panic;
        }
        if c.ready {
            c.completed_at = Some(poll_no);
            let (wake, fail) = (c.beh.wake_on_complete, c.beh.fail);
            w.completions_call += 1;
            w.completed_ids_call.push(id);
            w.no_longer_live(id);
            if wake {
                w.faults[FA_WOC] += 1;
            }
            Act::Complete { wake, fail }
        } else {
            pending_act(id, w, cx)
        }
    });
    match act {
        Act::Ignore => Poll::Pending,
        Act::Panic => {
            F.with(|f| f.quiet_panic.set(true));
            std::panic::panic_any(ChildPanic(id));
        }
        Act::Complete { wake, fail } => {
            if wake {
                with(|w| w.note_invocation(id));
                cx.waker().wake_by_ref();
            }
            let tok = with(|w| {
                // its stored waker is now a stale waker
                if let Some(wk) = w.children[id as usize].stored.take() {
                    w.wakers.push(HeldWaker { child: id, waker: wk });
                }
                w.log(0x11, id as u64);
                w.new_tok(id, 0, if fail { K_ERR } else { K_OK })
            });
            Poll::Ready((tok, fail))
        }
        Act::Pending {
            store,
            selfwake,
            cross,
        } => {
            do_pending(id, cx, store, selfwake, cross);
            Poll::Pending
        }
        Act::Item { .. } => unreachable!(),
    }
}

/// Poll of a scripted merge source.
pub fn src_poll(id: u32, addr: usize, cx: &mut Context<'_>) -> Poll<Option<Tok>> {
    if F.with(|f| f.aborting.get()) {
        return Poll::Pending;
    }
    check_work_cap();
    let act = with(|w| {
        if !poll_common(id, addr, w) {
            return Act::Ignore;
        }
        let poll_no = w.poll_no;
        let c = &mut w.children[id as usize];
        let c_wake = c.beh.wake_on_complete;
        if c.avail > 0 {
            if c.avail != INF {
                c.avail -= 1;
            }
            let seq = c.next_seq;
            c.next_seq += 1;
            // the merge re-arms a source that yielded: it is owed another poll
            c.needs_poll = true;
            c.needs_since = poll_no;
            c.credits += 1;
            w.owed_polls.insert((poll_no, id));
            w.merge_items += 1;
            w.pulled_call += 1;
            // some sources wake themselves in every poll that produces something
            let wake = c_wake && !w.frozen;
            if wake {
                w.faults[FA_WOC] += 1;
            }
            Act::Item { seq, wake }
        } else if c.closed {
            c.completed_at = Some(poll_no);
            let wake = c.beh.wake_on_complete;
            w.ended_call += 1;
            w.completed_ids_call.push(id);
            w.no_longer_live(id);
            if wake {
                w.faults[FA_WOC] += 1;
            }
            Act::Complete { wake, fail: false }
        } else {
            pending_act(id, w, cx)
        }
    });
    match act {
        Act::Ignore => Poll::Pending,
        Act::Panic => unreachable!(),
        Act::Item { seq, wake } => {
            if wake {
                with(|w| w.note_invocation(id));
                cx.waker().wake_by_ref();
            }
            let tok = with(|w| {
                w.log(0x12, ((id as u64) << 32) | seq as u64);
                w.new_tok(id, seq, K_ITEM)
            });
            Poll::Ready(Some(tok))
        }
        Act::Complete { wake, .. } => {
            if wake {
                with(|w| w.note_invocation(id));
                cx.waker().wake_by_ref();
            }
            with(|w| {
                if let Some(wk) = w.children[id as usize].stored.take() {
                    w.wakers.push(HeldWaker { child: id, waker: wk });
                }
                w.log(0x13, id as u64);
            });
            Poll::Ready(None)
        }
        Act::Pending {
            store,
            selfwake,
            cross,
        } => {
            do_pending(id, cx, store, selfwake, cross);
            Poll::Pending
        }
    }
}

pub fn child_drop(id: u32, addr: usize) {
    if F.with(|f| f.aborting.get()) {
        return;
    }
    let in_poll = F.with(|f| f.in_subject_poll.get());
    with(|w| {
        let poll_no = w.poll_no;
        w.log(0x18, id as u64);
        let c = &mut w.children[id as usize];
        c.drops += 1;
        if in_poll {
            c.dropped_at_poll = Some(poll_no);
        }
        let mut v: Vec<(&'static str, &'static str, String)> = vec![];
        if c.drops > 1 {
            v.push((
                "C06",
                "child-double-drop",
                format!("child {} dropped {} times", id, c.drops),
            ));
        }
        if c.polls > 0 && c.first_addr != addr {
            v.push((
                "C08",
                "moved-before-drop",
                format!("child {} dropped at a different address than it was polled at", id),
            ));
        }
        if let Some(wk) = c.stored.take() {
            w.wakers.push(HeldWaker { child: id, waker: wk });
        }
        w.no_longer_live(id);
        for (p, o, d) in v {
            w.violate(p, o, d);
        }
    });
    wake_in_drop(id);
}

/// Fault kind: a child that, while it is being dropped (inside a poll that saw it finish, or inside
/// the collection's own drop), invokes wakers of that same collection: its own, now stale, waker
/// and the waker of a sibling that is still held (a sender half waking its receiver).
fn wake_in_drop(id: u32) {
    if !with(|w| w.wake_in_drop && !w.frozen) {
        return;
    }
    let invoke = |h: HeldWaker| -> HeldWaker {
        let child = h.child;
        with(|w| {
            w.borrowed.push(h);
            w.faults[FA_WAKE_IN_DROP] += 1;
        });
        // the waker stays in the environment's books (`borrowed`) while it is invoked
        let wk: *const Waker = with(|w| &w.borrowed.last().unwrap().waker as *const Waker);
        let prev = F.with(|f| f.in_bracket.replace(true));
        // SAFETY: `borrowed` is not touched until the entry is popped again below; the World lives
        // in a thread-local for the whole run
        invoke_ref(child, unsafe { &*wk });
        F.with(|f| f.in_bracket.set(prev));
        with(|w| w.borrowed.pop().unwrap())
    };
    let own = with(|w| w.wakers.iter().rposition(|h| h.child == id).map(|i| w.wakers.remove(i)));
    if let Some(h) = own {
        let h = invoke(h);
        with(|w| w.wakers.push(h));
    }
    // a sibling that is still held: its waker in the pool, else the one it stored itself
    let sib = with(|w| {
        w.wakers
            .iter()
            .rposition(|h| h.child != id && w.is_live(h.child))
            .map(|i| (w.wakers.remove(i), false))
            .or_else(|| {
                let s = w.live.iter().copied().rev().find(|&s| s != id && w.children[s as usize].stored.is_some())?;
                let wk = w.children[s as usize].stored.take()?;
                Some((HeldWaker { child: s, waker: wk }, true))
            })
    });
    if let Some((h, was_stored)) = sib {
        let h = invoke(h);
        with(|w| {
            let c = &mut w.children[h.child as usize];
            if was_stored && c.stored.is_none() && c.completed_at.is_none() && c.drops == 0 {
                c.stored = Some(h.waker);
            } else {
                w.wakers.push(h);
            }
        });
    }
}

// ------------------------------------------------------------------------------------------
// output modes

/// Output without drop glue: the same fields as `Tok`, plain `Copy` data.
#[derive(Clone, Copy)]
pub struct RawTok {
    pub magic: u64,
    pub id: u32,
    pub child: u32,
    pub seq: u32,
    pub kind: u32,
}
impl RawTok {
    pub fn from_tok(t: Tok) -> RawTok {
        let r = RawTok {
            magic: t.magic,
            id: t.id,
            child: t.child,
            seq: t.seq,
            kind: t.kind,
        };
        std::mem::forget(t);
        r
    }
    /// Back into the tracked form at the harness boundary (its drop is then the caller's drop).
    pub fn into_tok(self) -> Tok {
        Tok {
            magic: self.magic,
            id: self.id,
            child: self.child,
            seq: self.seq,
            kind: self.kind,
        }
    }
}

pub trait OutMode: 'static {
    type Out;
    fn conv(t: Tok, fail: bool) -> Self::Out;
}
/// Zero-sized output WITH a destructor (a permit/guard-like token). It cannot carry an identity:
/// only the number of live ones is known.
pub struct ZTok;
impl Drop for ZTok {
    fn drop(&mut self) {
        if F.with(|f| f.aborting.get()) {
            return;
        }
        with(|w| {
            w.zst_dropped += 1;
            w.log(0x71, 0);
        });
    }
}
fn make_ztok(t: Tok) -> ZTok {
    let id = t.id;
    with(|w| {
        w.toks[id as usize].nodrop = true;
        w.toks[id as usize].handed_out = true;
        w.zst_created += 1;
    });
    std::mem::forget(t);
    ZTok
}
pub struct PlainZst;
pub struct TryZst;
impl OutMode for PlainZst {
    type Out = ZTok;
    fn conv(t: Tok, _fail: bool) -> ZTok {
        make_ztok(t)
    }
}
impl OutMode for TryZst {
    type Out = Result<ZTok, Tok>;
    fn conv(t: Tok, fail: bool) -> Result<ZTok, Tok> {
        if fail {
            Err(t)
        } else {
            Ok(make_ztok(t))
        }
    }
}
pub struct PlainRaw;
pub struct TryRaw;
impl OutMode for PlainRaw {
    type Out = RawTok;
    fn conv(t: Tok, _fail: bool) -> RawTok {
        RawTok::from_tok(t)
    }
}
impl OutMode for TryRaw {
    type Out = Result<RawTok, RawTok>;
    fn conv(t: Tok, fail: bool) -> Result<RawTok, RawTok> {
        if fail {
            Err(RawTok::from_tok(t))
        } else {
            Ok(RawTok::from_tok(t))
        }
    }
}
pub struct Plain;
pub struct Try;
pub struct Unit;
impl OutMode for Plain {
    type Out = Tok;
    fn conv(t: Tok, _fail: bool) -> Tok {
        t
    }
}
impl OutMode for Try {
    type Out = Result<Tok, Tok>;
    fn conv(t: Tok, fail: bool) -> Result<Tok, Tok> {
        if fail {
            Err(t)
        } else {
            Ok(t)
        }
    }
}
impl OutMode for Unit {
    type Out = ();
    fn conv(t: Tok, _fail: bool) {
        // the output is consumed inside the combinator: mark it handed out, then drop it
        let id = t.id;
        with(|w| w.toks[id as usize].handed_out = true);
        drop(t);
    }
}

pub struct SimFut<M> {
    pub id: u32,
    _m: PhantomData<fn() -> M>,
    _pin: PhantomPinned,
}

impl<M> SimFut<M> {
    pub fn new(id: u32) -> Self {
        SimFut {
            id,
            _m: PhantomData,
            _pin: PhantomPinned,
        }
    }
}

impl<M: OutMode> Future for SimFut<M> {
    type Output = M::Out;
    fn poll(self: Pin<&mut Self>, cx: &mut Context<'_>) -> Poll<M::Out> {
        let addr = &*self as *const Self as usize;
        match fut_poll(self.id, addr, cx) {
            Poll::Ready((t, fail)) => Poll::Ready(M::conv(t, fail)),
            Poll::Pending => Poll::Pending,
        }
    }
}

impl<M> Drop for SimFut<M> {
    fn drop(&mut self) {
        child_drop(self.id, self as *const Self as usize);
    }
}

/// A large future type (more than a page): size-dependent decisions in the crate see it.
pub struct BigFut<M> {
    pub id: u32,
    _pad: [u8; 4200],
    _m: PhantomData<fn() -> M>,
    _pin: PhantomPinned,
}
impl<M> BigFut<M> {
    pub fn new(id: u32) -> Self {
        BigFut {
            id,
            _pad: [0; 4200],
            _m: PhantomData,
            _pin: PhantomPinned,
        }
    }
}
impl<M: OutMode> Future for BigFut<M> {
    type Output = M::Out;
    fn poll(self: Pin<&mut Self>, cx: &mut Context<'_>) -> Poll<M::Out> {
        let addr = &*self as *const Self as usize;
        match fut_poll(self.id, addr, cx) {
            Poll::Ready((t, fail)) => Poll::Ready(M::conv(t, fail)),
            Poll::Pending => Poll::Pending,
        }
    }
}
impl<M> Drop for BigFut<M> {
    fn drop(&mut self) {
        child_drop(self.id, self as *const Self as usize);
    }
}

/// A future type without drop glue (no `Drop` impl, only plain data): its drop is unobservable.
pub struct NdFut<M> {
    pub id: u32,
    _m: PhantomData<fn() -> M>,
    _pin: PhantomPinned,
}
impl<M> NdFut<M> {
    pub fn new(id: u32) -> Self {
        NdFut {
            id,
            _m: PhantomData,
            _pin: PhantomPinned,
        }
    }
}
impl<M: OutMode> Future for NdFut<M> {
    type Output = M::Out;
    fn poll(self: Pin<&mut Self>, cx: &mut Context<'_>) -> Poll<M::Out> {
        let addr = &*self as *const Self as usize;
        match fut_poll(self.id, addr, cx) {
            Poll::Ready((t, fail)) => Poll::Ready(M::conv(t, fail)),
            Poll::Pending => Poll::Pending,
        }
    }
}

/// Merge source. `P = PhantomPinned` makes it `!Unpin`, `P = ()` makes it `Unpin`; `M` is the
/// item mode (tracked `Tok` or plain `RawTok`).
pub struct SimSrc<P, M = Plain> {
    pub id: u32,
    _pin: PhantomData<P>,
    _m: PhantomData<fn() -> M>,
}
impl<P, M> SimSrc<P, M> {
    pub fn new(id: u32) -> Self {
        SimSrc {
            id,
            _pin: PhantomData,
            _m: PhantomData,
        }
    }
}
fn src_hint(id: u32) -> (usize, Option<usize>) {
    with(|w| {
        if !w.src_hints {
            return (0, None);
        }
        let c = &w.children[id as usize];
        if c.avail == INF {
            (usize::MAX, None)
        } else if c.closed {
            (c.avail as usize, Some(c.avail as usize))
        } else if w.src_promise {
            ((c.avail as usize).max(1), None)
        } else {
            (c.avail as usize, None)
        }
    })
}
impl<P, M: OutMode> Stream for SimSrc<P, M> {
    type Item = M::Out;
    fn poll_next(self: Pin<&mut Self>, cx: &mut Context<'_>) -> Poll<Option<M::Out>> {
        let addr = &*self as *const Self as usize;
        src_poll(self.id, addr, cx).map(|o| o.map(|t| M::conv(t, false)))
    }
    /// Honest hint (when the run asks for one): what is available now is a lower bound; a closed
    /// source yields exactly that much; an always-ready source answers like `stream::repeat`.
    fn size_hint(&self) -> (usize, Option<usize>) {
        src_hint(self.id)
    }
}
impl<P, M> Drop for SimSrc<P, M> {
    fn drop(&mut self) {
        child_drop(self.id, self as *const Self as usize);
    }
}

/// A source type without drop glue.
pub struct NdSrc<P, M = Plain> {
    pub id: u32,
    _pin: PhantomData<P>,
    _m: PhantomData<fn() -> M>,
}
impl<P, M> NdSrc<P, M> {
    pub fn new(id: u32) -> Self {
        NdSrc {
            id,
            _pin: PhantomData,
            _m: PhantomData,
        }
    }
}
impl<P, M: OutMode> Stream for NdSrc<P, M> {
    type Item = M::Out;
    fn poll_next(self: Pin<&mut Self>, cx: &mut Context<'_>) -> Poll<Option<M::Out>> {
        let addr = &*self as *const Self as usize;
        src_poll(self.id, addr, cx).map(|o| o.map(|t| M::conv(t, false)))
    }
    fn size_hint(&self) -> (usize, Option<usize>) {
        src_hint(self.id)
    }
}

// ------------------------------------------------------------------------------------------
// upstream of the adapters

pub enum UpRes {
    Fut(u32),
    Err(Tok),
    End,
    Pending,
}

pub fn up_poll(cx: &mut Context<'_>) -> UpRes {
    if F.with(|f| f.aborting.get()) {
        return UpRes::Pending;
    }
    check_work_cap();
    enum A {
        Fut(u32),
        Err,
        End,
        Pending,
    }
    let a = with(|w| {
        w.up.polls += 1;
        w.up.polled_this_call = true;
        w.log(0x20, w.up.pos as u64);
        if w.up.ended {
            w.up.polled_after_end += 1;
            w.violate(
                "C10",
                "upstream-polled-after-end",
                "upstream polled again after it returned None".to_string(),
            );
            return A::End;
        }
        if w.up.pos == w.up.script.len() {
            w.up.ended = true;
            return A::End;
        }
        if w.up.pos >= w.up.released {
            w.up.pending_this_call = true;
            w.faults[FA_UP_PENDING] += 1;
            return A::Pending;
        }
        let e = w.up.script[w.up.pos].clone();
        w.up.pos += 1;
        match e {
            UpEntry::Fut(beh) => {
                let id = w.new_child(CKind::Fut, beh);
                w.children[id as usize].from_upstream = true;
                w.accept(id);
                w.up.pulled_futs += 1;
                w.pulled_call += 1;
                w.pulled_ids_call.push(id);
                // C09: never more than `limit` unfinished futures
                let live = w.live.len();
                // C16: pulled but not yet yielded, counted at the moment of the pull (an item the
                // current call is about to hand out has not been yielded yet)
                let outstanding = w.up.pulled_futs - w.adapter_yielded;
                if w.ordered_adapter && w.limit > 0 && outstanding > w.limit as u64 {
                    let d = format!(
                        "{} items pulled but not yielded at the moment of a pull, limit is {}",
                        outstanding, w.limit
                    );
                    w.violate("C16", "backlog-exceeds-limit", d);
                }
                if w.limit > 0 && live > w.limit {
                    let d = format!(
                        "{} unfinished futures alive after a pull, limit is {}",
                        live, w.limit
                    );
                    w.violate("C09", "limit-exceeded", d);
                }
                A::Fut(id)
            }
            UpEntry::Err => {
                w.faults[FA_UP_ERR] += 1;
                A::Err
            }
        }
    });
    match a {
        A::Fut(id) => UpRes::Fut(id),
        A::Err => UpRes::Err(with(|w| w.new_tok(u32::MAX, w.up.pos as u32, K_UPERR))),
        A::End => UpRes::End,
        A::Pending => {
            let nw = cx.waker().clone();
            let old = with(|w| w.up.stored.replace(nw));
            drop(old);
            UpRes::Pending
        }
    }
}

pub trait UpMode: 'static {
    type Item;
    fn fut(id: u32) -> Self::Item;
    fn err(t: Tok) -> Option<Self::Item>;
}
pub struct UpPlain;
pub struct UpTry;
pub struct UpIdx;
impl UpMode for UpPlain {
    type Item = SimFut<Plain>;
    fn fut(id: u32) -> Self::Item {
        SimFut::new(id)
    }
    fn err(_t: Tok) -> Option<Self::Item> {
        None
    }
}
impl UpMode for UpTry {
    type Item = Result<SimFut<Try>, Tok>;
    fn fut(id: u32) -> Self::Item {
        Ok(SimFut::new(id))
    }
    fn err(t: Tok) -> Option<Self::Item> {
        Some(Err(t))
    }
}
impl UpMode for UpIdx {
    type Item = u32;
    fn fut(id: u32) -> u32 {
        id
    }
    fn err(_t: Tok) -> Option<u32> {
        None
    }
}

/// Upstream items of any future shape.
pub struct UpG<F>(PhantomData<fn() -> F>);
pub trait MakeFut: 'static {
    fn make_fut(id: u32) -> Self;
}
impl<M: 'static> MakeFut for SimFut<M> {
    fn make_fut(id: u32) -> Self {
        SimFut::new(id)
    }
}
impl<M: 'static> MakeFut for NdFut<M> {
    fn make_fut(id: u32) -> Self {
        NdFut::new(id)
    }
}
impl<F: MakeFut> UpMode for UpG<F> {
    type Item = F;
    fn fut(id: u32) -> F {
        F::make_fut(id)
    }
    fn err(_t: Tok) -> Option<F> {
        None
    }
}
/// Try-upstream items `Result<F, E>` with the error in tracked or plain form.
pub struct UpTryG<F, E>(PhantomData<fn() -> (F, E)>);
pub trait FromTok: 'static {
    fn from_tok(t: Tok) -> Self;
}
impl FromTok for Tok {
    fn from_tok(t: Tok) -> Tok {
        t
    }
}
impl FromTok for RawTok {
    fn from_tok(t: Tok) -> RawTok {
        RawTok::from_tok(t)
    }
}
impl<F: MakeFut, E: FromTok> UpMode for UpTryG<F, E> {
    type Item = Result<F, E>;
    fn fut(id: u32) -> Self::Item {
        Ok(F::make_fut(id))
    }
    fn err(t: Tok) -> Option<Self::Item> {
        Some(Err(E::from_tok(t)))
    }
}

pub struct SimUp<U> {
    _u: PhantomData<fn() -> U>,
    _pin: PhantomPinned,
}
impl<U> SimUp<U> {
    pub fn new() -> Self {
        SimUp {
            _u: PhantomData,
            _pin: PhantomPinned,
        }
    }
}
impl<U: UpMode> Stream for SimUp<U> {
    type Item = U::Item;
    fn poll_next(self: Pin<&mut Self>, cx: &mut Context<'_>) -> Poll<Option<U::Item>> {
        match up_poll(cx) {
            UpRes::Fut(id) => Poll::Ready(Some(U::fut(id))),
            UpRes::Err(t) => match U::err(t) {
                Some(i) => Poll::Ready(Some(i)),
                None => {
                    eprintln!("HARNESS-ERROR: error entry in a non-try upstream script");
                    std::process::exit(2);
                }
            },
            UpRes::End => Poll::Ready(None),
            UpRes::Pending => Poll::Pending,
        }
    }
    fn size_hint(&self) -> (usize, Option<usize>) {
        with(|w| w.up.hint())
    }
}
