//! fbsim — deterministic single-threaded simulator (layer L1) for futures-buffered.

mod alloc;
mod children;
mod flags;
mod gen;
mod ops;
mod plans;
mod probes;
mod rng;
mod run;
mod shrink;
mod subjects;
mod world;
mod zst;

use gen::Workload;
use ops::*;
use run::RunResult;
use serde::{Deserialize, Serialize};
use std::collections::{BTreeMap, BTreeSet};
use std::sync::atomic::{AtomicU64, AtomicUsize, Ordering};
use std::sync::Mutex;
use std::time::Instant;

#[cfg(not(miri))]
#[global_allocator]
static GLOBAL: alloc::SimAlloc = alloc::SimAlloc;

#[derive(Serialize, Deserialize, Clone, Debug)]
pub struct Replay {
    pub property: String,
    pub oracle: String,
    pub detail: String,
    pub seed: u64,
    pub run_index: u64,
    pub original_ops: usize,
    pub shrink_runs: usize,
    pub config: Config,
    pub trace: Vec<Op>,
    pub event_log_hash: String,
}

#[derive(Deserialize, Clone, Debug)]
struct KnownFinding {
    status: String,
    property: String,
    #[serde(default)]
    oracle: String,
    #[serde(default)]
    subjects: Vec<String>,
    #[serde(default)]
    what: String,
}
#[derive(Deserialize, Clone, Debug, Default)]
struct KnownFile {
    #[serde(default)]
    findings: Vec<KnownFinding>,
}

fn install_panic_hook() {
    static NOISY: AtomicUsize = AtomicUsize::new(0);
    let verbose = std::env::var("FBSIM_VERBOSE").is_ok();
    std::panic::set_hook(Box::new(move |info| {
        let quiet = flags::F.try_with(|f| f.quiet_panic.get()).unwrap_or(false);
        if quiet && !verbose {
            return;
        }
        if NOISY.fetch_add(1, Ordering::Relaxed) < 20 || verbose {
            eprintln!("[panic] {}", info);
        }
    }));
}

#[cfg(not(miri))]
fn install_crash_handler() {
    extern "C" {
        fn signal(sig: i32, handler: usize) -> usize;
        fn write(fd: i32, buf: *const u8, n: usize) -> isize;
        fn _exit(code: i32) -> !;
    }
    extern "C" fn on_crash(sig: i32) {
        let seed = flags::F.try_with(|f| f.cur_run_seed.get()).unwrap_or(0);
        let mut buf = [0u8; 96];
        let msg = b"\nCRASH signal=";
        let mut n = 0;
        for &b in msg {
            buf[n] = b;
            n += 1;
        }
        buf[n] = b'0' + (sig / 10) as u8;
        buf[n + 1] = b'0' + (sig % 10) as u8;
        n += 2;
        for &b in b" run_seed=" {
            buf[n] = b;
            n += 1;
        }
        let mut digits = [0u8; 20];
        let mut d = 0;
        let mut s = seed;
        loop {
            digits[d] = b'0' + (s % 10) as u8;
            d += 1;
            s /= 10;
            if s == 0 {
                break;
            }
        }
        while d > 0 {
            d -= 1;
            buf[n] = digits[d];
            n += 1;
        }
        buf[n] = b'\n';
        n += 1;
        unsafe {
            write(2, buf.as_ptr(), n);
            _exit(3);
        }
    }
    unsafe {
        signal(11, on_crash as usize);
        signal(7, on_crash as usize);
        signal(4, on_crash as usize);
        signal(6, on_crash as usize);
    }
}
#[cfg(miri)]
fn install_crash_handler() {}

fn arg_val(args: &[String], name: &str) -> Option<String> {
    args.iter().position(|a| a == name).and_then(|i| args.get(i + 1).cloned())
}

#[derive(Default)]
struct Agg {
    runs: u64,
    nontrivial: u64,
    steps: u64,
    polls: u64,
    child_polls: u64,
    items: u64,
    faults: [u64; world::NFAULT],
    hits: [u64; 9],
    waker_ops: [u64; 4],
    hashes: BTreeSet<u64>,
    layouts: BTreeSet<u64>,
    max_groups: usize,
    peak_held: usize,
    aborted: u64,
    freeze_checks: u64,
    freeze_skipped: u64,
    quiesces: u64,
    blocks: u64,
    max_wait: u64,
    max_work: u64,
    stale_task_wakes: u64,
    per_subject: BTreeMap<String, u64>,
    per_workload: BTreeMap<String, u64>,
    per_shape: BTreeMap<String, u64>,
    incidental: BTreeMap<String, u64>,
    /// (property, oracle, subject) -> (count, first (seed, run index, workload, sweep_k))
    found: BTreeMap<(String, String, String), (u64, u64, u64, Workload, Option<usize>, String)>,
    samples: Vec<serde_json::Value>,
}

impl Agg {
    fn merge(&mut self, o: Agg) {
        self.runs += o.runs;
        self.nontrivial += o.nontrivial;
        self.steps += o.steps;
        self.polls += o.polls;
        self.child_polls += o.child_polls;
        self.items += o.items;
        for i in 0..self.faults.len() {
            self.faults[i] += o.faults[i];
        }
        for i in 0..9 {
            self.hits[i] += o.hits[i];
        }
        for i in 0..4 {
            self.waker_ops[i] += o.waker_ops[i];
        }
        self.hashes.extend(o.hashes);
        self.layouts.extend(o.layouts);
        self.max_groups = self.max_groups.max(o.max_groups);
        self.peak_held = self.peak_held.max(o.peak_held);
        self.aborted += o.aborted;
        self.freeze_checks += o.freeze_checks;
        self.freeze_skipped += o.freeze_skipped;
        self.quiesces += o.quiesces;
        self.blocks += o.blocks;
        self.max_wait = self.max_wait.max(o.max_wait);
        self.max_work = self.max_work.max(o.max_work);
        self.stale_task_wakes += o.stale_task_wakes;
        for (k, v) in o.per_subject {
            *self.per_subject.entry(k).or_default() += v;
        }
        for (k, v) in o.per_shape {
            *self.per_shape.entry(k).or_default() += v;
        }
        for (k, v) in o.per_workload {
            *self.per_workload.entry(k).or_default() += v;
        }
        for (k, v) in o.incidental {
            *self.incidental.entry(k).or_default() += v;
        }
        for (k, v) in o.found {
            let e = self.found.entry(k).or_insert((0, v.1, v.2, v.3, v.4, v.5.clone()));
            e.0 += v.0;
            if v.2 < e.2 {
                *e = (e.0, v.1, v.2, v.3, v.4, v.5);
            }
        }
        if self.samples.len() < 3 {
            self.samples.extend(o.samples);
            self.samples.truncate(3);
        }
    }

    fn add(&mut self, prop: &str, cfg: &Config, trace: &[Op], r: &RunResult, seed: u64, index: u64, wl: Workload, sweep_k: Option<usize>) {
        self.runs += 1;
        if r.nontrivial {
            self.nontrivial += 1;
            self.hashes.insert(r.hash);
        }
        self.steps += r.steps;
        self.polls += r.polls;
        self.child_polls += r.child_polls;
        self.items += r.items;
        for i in 0..self.faults.len() {
            self.faults[i] += r.faults[i];
        }
        for i in 0..9 {
            self.hits[i] += r.hits[i];
        }
        for i in 0..4 {
            self.waker_ops[i] += r.waker_ops[i];
        }
        self.layouts.extend(r.layouts.iter().copied());
        self.max_groups = self.max_groups.max(r.max_groups);
        self.peak_held = self.peak_held.max(r.peak_held);
        if r.aborted.is_some() {
            self.aborted += 1;
        }
        self.freeze_checks += r.freeze_checks;
        self.freeze_skipped += r.freeze_skipped;
        self.quiesces += r.quiesces;
        self.blocks += r.blocks as u64;
        self.max_wait = self.max_wait.max(r.max_wait);
        self.max_work = self.max_work.max(r.max_work);
        self.stale_task_wakes += r.stale_task_wakes;
        *self.per_subject.entry(cfg.subject.name().to_string()).or_default() += 1;
        *self.per_workload.entry(format!("{:?}", wl)).or_default() += 1;
        let shape = if cfg.shape & 8 != 0 {
            "future of 4200 bytes"
        } else if cfg.shape & 4 != 0 {
            "zero-sized output with destructor"
        } else {
            match cfg.shape & 3 {
                0 => "future and output with drop glue",
                1 => "future without drop glue",
                2 => "output without drop glue",
                _ => "neither with drop glue",
            }
        };
        *self.per_shape.entry(shape.to_string()).or_default() += 1;
        if cfg.zst_children.is_some() {
            *self.per_shape.entry("plus a pass with zero-sized futures and streams (count-only model)".to_string()).or_default() += 1;
        }
        let mut seen_keys: Vec<(String, String, String)> = vec![];
        for v in &r.violations {
            if counts_for(prop, v, cfg.subject) {
                let key = (v.property.clone(), v.oracle.clone(), cfg.subject.name().to_string());
                // counted once per run
                if seen_keys.contains(&key) {
                    continue;
                }
                seen_keys.push(key.clone());
                let e = self.found.entry(key).or_insert((0, seed, index, wl, sweep_k, v.detail.clone()));
                e.0 += 1;
            } else {
                *self.incidental.entry(format!("{}/{}", v.property, v.oracle)).or_default() += 1;
            }
        }
        if self.samples.len() < 2 && r.nontrivial && trace.len() >= 4 && trace.len() <= 40 {
            self.samples.push(serde_json::json!({
                "run_index": index,
                "run_seed": seed,
                "config": cfg,
                "trace": trace,
                "event_log_hash": format!("{:016x}", r.hash),
                "polls": r.polls,
                "child_polls": r.child_polls,
            }));
        }
    }
}

/// A violation is primarily tagged with one property; some oracles also decide another property
/// for particular subjects (an ordered queue that loses or invents an output is not a queue).
fn counts_for(prop: &str, v: &world::Violation, subject: SubjectKind) -> bool {
    if v.property == prop {
        return true;
    }
    use SubjectKind::*;
    let o = v.oracle.as_str();
    match prop {
        "C04" => {
            (matches!(subject, FOB | FO)
                && v.property == "C02"
                && matches!(o, "none-while-holding" | "pending-while-empty" | "yielded-not-held" | "ready-not-yielded" | "duplicate-output"))
                || (matches!(subject, BO | TBO)
                    && v.property == "C10"
                    && matches!(o, "ended-early" | "yielded-not-in-flight" | "pending-when-done" | "duplicate-output"))
        }
        "C02" => matches!(subject, FUB | FU | FOB | FO) && v.property == "C04" && o == "out-of-order",
        "C11" => matches!(subject, MB | MU) && v.property == "C02",
        // the observer contract covers every is_terminated the crate offers
        "C15" => v.property == "C10" && o == "terminated-early",
        _ => false,
    }
}

/// The trace actually executed for (base trace, sweep position).
fn sweep_trace(trace: &[Op], k: usize) -> Vec<Op> {
    let mut t: Vec<Op> = trace[..k].iter().filter(|o| **o != Op::Cancel).cloned().collect();
    t.push(Op::Cancel);
    t.push(Op::Stale { sel: 1, how: WakeHow::ByRef });
    t.push(Op::CloneW { sel: 0 });
    t.push(Op::Stale { sel: 0, how: WakeHow::ByValue });
    t
}

fn main() {
    let args: Vec<String> = std::env::args().collect();
    install_panic_hook();
    install_crash_handler();
    probes::install();
    let cmd = args.get(1).map(|s| s.as_str()).unwrap_or("");
    let code = match cmd {
        "check" => cmd_check(&args),
        "replay" => cmd_replay(&args),
        "one" => cmd_one(&args),
        "determinism" => cmd_determinism(&args),
        _ => {
            eprintln!("usage: fbsim check --prop Cxx --tier quick|thorough [--seed N] [--threads N] [--runs N] [--out file] [--replays dir] [--known file]\n       fbsim replay <file>\n       fbsim one --workload W --subject S --seed N\n       fbsim determinism --prop Cxx --runs N --seed N --threads N");
            2
        }
    };
    std::process::exit(code);
}

fn parse_subject(s: &str) -> Option<SubjectKind> {
    ALL_SUBJECTS.iter().copied().find(|k| format!("{:?}", k) == s || k.name() == s)
}
fn parse_workload(s: &str) -> Option<Workload> {
    gen::ALL_WORKLOADS.iter().copied().find(|k| format!("{:?}", k) == s)
}

fn cmd_one(args: &[String]) -> i32 {
    let wl = parse_workload(&arg_val(args, "--workload").unwrap_or("Generic".into())).expect("workload");
    let sj = parse_subject(&arg_val(args, "--subject").unwrap_or("FUB".into())).expect("subject");
    let seed: u64 = arg_val(args, "--seed").and_then(|s| s.parse().ok()).unwrap_or(1);
    alloc::enable();
    let (cfg, trace) = gen::generate(wl, sj, seed);
    println!("{}", serde_json::to_string(&cfg).unwrap());
    for (i, o) in trace.iter().enumerate() {
        println!("{:4} {:?}", i + 1, o);
    }
    let r = run::run(&cfg, &trace);
    println!("{:#?}", r);
    0
}

struct RunSpec {
    wl: Workload,
    subject: SubjectKind,
    sweep: bool,
}

/// The case for one run index: generated, then (Miri mode) cut down to a small one.
fn make_case(wl: Workload, subject: SubjectKind, seed: u64, max_ops: usize) -> (Config, Vec<Op>) {
    let (mut cfg, mut trace) = gen::generate(wl, subject, seed);
    if max_ops < usize::MAX {
        trace.truncate(max_ops);
        cfg.initial.truncate(6);
        cfg.upstream.truncate(10);
        cfg.up_released = cfg.up_released.min(cfg.upstream.len());
        if cfg.subject.class() == Class::Join || (cfg.ctor == Ctor::Collect && cfg.subject.bounded()) {
            cfg.cap = cfg.initial.len();
        } else {
            cfg.cap = cfg.cap.min(40);
        }
        // keep pushes of very large populations out of the interpreter
        let mut pushes = 0;
        trace.retain(|o| match o {
            Op::Push { .. } => {
                pushes += 1;
                pushes <= 10
            }
            _ => true,
        });
    }
    (cfg, trace)
}

fn exec_index(prop: &str, plan: &[RunSpec], batch: u64, index: u64, agg: &mut Agg, max_ops: usize) {
    let spec = &plan[(index % plan.len() as u64) as usize];
    let seed = rng::run_seed(batch, index);
    flags::F.with(|f| f.cur_run_seed.set(seed));
    let (cfg, trace) = make_case(spec.wl, spec.subject, seed, max_ops);
    if spec.sweep {
        let n = trace.len().min(60);
        for k in 0..=n {
            let t = sweep_trace(&trace, k);
            let r = run::run(&cfg, &t);
            agg.add(prop, &cfg, &t, &r, seed, index, spec.wl, Some(k));
        }
    } else {
        let r = run::run(&cfg, &trace);
        agg.add(prop, &cfg, &trace, &r, seed, index, spec.wl, None);
    }
}

fn cmd_determinism(args: &[String]) -> i32 {
    // prints one line per run: index and event-log hash; callers diff the output of two processes
    let prop = arg_val(args, "--prop").unwrap_or("C01".into());
    let runs: u64 = arg_val(args, "--runs").and_then(|s| s.parse().ok()).unwrap_or(2000);
    let batch: u64 = arg_val(args, "--seed").and_then(|s| s.parse().ok()).unwrap_or(1);
    let threads: usize = arg_val(args, "--threads").and_then(|s| s.parse().ok()).unwrap_or(1);
    let plan = plans::plan(&prop, "quick");
    #[cfg(not(miri))]
    run::start_watchdog(10_000);
    let out: Mutex<Vec<(u64, u64, usize)>> = Mutex::new(vec![]);
    let next = AtomicU64::new(0);
    std::thread::scope(|s| {
        for _ in 0..threads {
            s.spawn(|| {
                alloc::enable();
                loop {
                    let i = next.fetch_add(1, Ordering::Relaxed);
                    if i >= runs {
                        break;
                    }
                    let spec = &plan[(i % plan.len() as u64) as usize];
                    let seed = rng::run_seed(batch, i);
                    let (cfg, trace) = gen::generate(spec.wl, spec.subject, seed);
                    let r = run::run(&cfg, &trace);
                    out.lock().unwrap().push((i, r.hash, r.violations.len()));
                }
            });
        }
    });
    let mut v = out.into_inner().unwrap();
    v.sort();
    let mut h = 0xcbf29ce484222325u64;
    for (i, x, n) in &v {
        h = (h ^ i ^ x.rotate_left(7) ^ (*n as u64)).wrapping_mul(0x100000001b3);
    }
    if arg_val(args, "--list").is_some() {
        for (i, x, n) in &v {
            println!("{} {:016x} {}", i, x, n);
        }
    }
    println!("determinism prop={} runs={} seed={} threads={} digest={:016x}", prop, runs, batch, threads, h);
    0
}

fn cmd_replay(args: &[String]) -> i32 {
    let Some(path) = args.get(2) else {
        eprintln!("replay: missing file");
        return 2;
    };
    let text = match std::fs::read_to_string(path) {
        Ok(t) => t,
        Err(e) => {
            eprintln!("replay: {}", e);
            return 2;
        }
    };
    let rp: Replay = match serde_json::from_str(&text) {
        Ok(r) => r,
        Err(e) => {
            eprintln!("replay: bad file: {}", e);
            return 2;
        }
    };
    alloc::enable();
    let r = run::run(&rp.config, &rp.trace);
    let hash = format!("{:016x}", r.hash);
    println!("replay {}: subject={} ops={} event_log_hash={} (recorded {})", path, rp.config.subject.name(), rp.trace.len(), hash, rp.event_log_hash);
    for v in &r.violations {
        println!("  violation property={} oracle={} at op {}: {}", v.property, v.oracle, v.op_index, v.detail);
    }
    let same = r.violations.iter().any(|v| v.property == rp.property && v.oracle == rp.oracle);
    if same && hash == rp.event_log_hash {
        println!("REPRODUCED property={} oracle={}", rp.property, rp.oracle);
        1
    } else if same {
        println!("REPRODUCED property={} oracle={} (event log differs: the code under test changed since the recording)", rp.property, rp.oracle);
        1
    } else {
        println!("NOT-REPRODUCED property={} oracle={}", rp.property, rp.oracle);
        0
    }
}

fn cmd_check(args: &[String]) -> i32 {
    let prop = arg_val(args, "--prop").expect("--prop");
    let tier = arg_val(args, "--tier").unwrap_or("quick".into());
    let batch: u64 = arg_val(args, "--seed")
        .and_then(|s| s.parse().ok())
        .or_else(|| std::env::var("VERIF_SEED").ok().and_then(|s| s.parse().ok()))
        .unwrap_or(20261002);
    let threads: usize = arg_val(args, "--threads").and_then(|s| s.parse().ok()).unwrap_or(16);
    let out = arg_val(args, "--out");
    let replays = arg_val(args, "--replays").unwrap_or("/verif/replays".into());
    let known_path = arg_val(args, "--known").unwrap_or("/verif/known_findings.json".into());
    let plan = plans::plan(&prop, &tier);
    let runs: u64 = arg_val(args, "--runs")
        .and_then(|s| s.parse().ok())
        .unwrap_or_else(|| plans::runs(&prop, &tier));
    let first: u64 = arg_val(args, "--first").and_then(|s| s.parse().ok()).unwrap_or(0);
    let max_ops: usize = arg_val(args, "--max-ops").and_then(|s| s.parse().ok()).unwrap_or(usize::MAX);
    let no_shrink = args.iter().any(|a| a == "--no-shrink");
    let budget_s: f64 = arg_val(args, "--max-seconds").and_then(|s| s.parse().ok()).unwrap_or(if tier == "quick" { 40.0 } else { 1500.0 });
    println!("fbsim check property={} tier={} VERIF_SEED={} runs={} threads={} plan_entries={}", prop, tier, batch, runs, threads, plan.len());
    let known: KnownFile = std::fs::read_to_string(&known_path)
        .ok()
        .and_then(|t| serde_json::from_str(&t).ok())
        .unwrap_or_default();

    let t0 = Instant::now();
    let next = AtomicU64::new(first);
    let total = Mutex::new(Agg::default());
    let done_runs = AtomicU64::new(0);
    #[cfg(not(miri))]
    run::start_watchdog(if max_ops < usize::MAX { 600_000 } else { 10_000 });
    std::thread::scope(|s| {
        for _ in 0..threads {
            s.spawn(|| {
                alloc::enable();
                let mut agg = Agg::default();
                loop {
                    let i = next.fetch_add(1, Ordering::Relaxed);
                    if i >= runs {
                        break;
                    }
                    if i % 64 == 0 && t0.elapsed().as_secs_f64() > budget_s {
                        break;
                    }
                    exec_index(&prop, &plan, batch, i, &mut agg, max_ops);
                    done_runs.fetch_add(1, Ordering::Relaxed);
                }
                total.lock().unwrap().merge(agg);
            });
        }
    });
    let agg = total.into_inner().unwrap();
    let indices_done = done_runs.load(Ordering::Relaxed);
    let wall = t0.elapsed().as_secs_f64();

    // violations: minimise the first of each (property, oracle, subject), write replay files
    alloc::enable();
    let _ = std::fs::create_dir_all(&replays);
    let mut violations = 0u64;
    let mut known_hits: Vec<String> = vec![];
    let mut lines: Vec<String> = vec![];
    let mut viol_json: Vec<serde_json::Value> = vec![];
    for ((p, oracle, subject), (count, seed, index, wl, sweep_k, detail)) in &agg.found {
        let is_known = known.findings.iter().any(|k| {
            k.status == "known" && (&k.property == p || k.property == prop) && &k.oracle == oracle && (k.subjects.is_empty() || k.subjects.iter().any(|s| s == "*" || s == subject))
        });
        let sk = parse_subject(subject).unwrap();
        let (cfg, base) = make_case(*wl, sk, *seed, max_ops);
        let trace = match sweep_k {
            Some(k) => sweep_trace(&base, *k),
            None => base,
        };
        let sh = if no_shrink {
            shrink::Shrunk { cfg: cfg.clone(), trace: trace.clone(), runs: 0 }
        } else {
            shrink::shrink(&cfg, &trace, p, oracle, if tier == "quick" { 1500 } else { 6000 })
        };
        let r = run::run(&sh.cfg, &sh.trace);
        let v = r.violations.iter().find(|v| &v.property == p && &v.oracle == oracle);
        let detail2 = v.map(|v| v.detail.clone()).unwrap_or(detail.clone());
        let rp = Replay {
            property: p.clone(),
            oracle: oracle.clone(),
            detail: detail2.clone(),
            seed: batch,
            run_index: *index,
            original_ops: trace.len(),
            shrink_runs: sh.runs,
            config: sh.cfg.clone(),
            trace: sh.trace.clone(),
            event_log_hash: format!("{:016x}", r.hash),
        };
        let path = if *p == prop {
            format!("{}/{}-{}-{:?}-{}.json", replays, p, oracle, sk, index)
        } else {
            format!("{}/{}-as-{}-{}-{:?}-{}.json", replays, prop, p, oracle, sk, index)
        };
        if v.is_none() {
            eprintln!("HARNESS-ERROR: minimised trace for {}/{} does not reproduce", p, oracle);
            return 2;
        }
        std::fs::write(&path, serde_json::to_string_pretty(&rp).unwrap()).ok();
        viol_json.push(serde_json::json!({"property": p, "oracle": oracle, "subject": subject, "count": count, "replay": path, "known": is_known, "detail": detail2, "minimised_ops": sh.trace.len(), "original_ops": trace.len()}));
        if is_known {
            known_hits.push(format!("{}/{}/{}", p, oracle, subject));
            lines.push(format!("KNOWN-FINDING: property={} {}/{} on {} ({} runs): {} [replay={}]", prop, p, oracle, subject, count, detail2, path));
        } else {
            violations += 1;
            lines.push(format!("VIOLATION property={} replay={}", prop, path));
            lines.push(format!("  oracle={} subject={} runs_failing={} minimised_ops={} (from {}): {}", oracle, subject, count, sh.trace.len(), trace.len(), detail2));
        }
    }
    for l in &lines {
        println!("{}", l);
    }

    let fault_map: BTreeMap<&str, u64> = world::FAULT_NAMES.iter().copied().zip(agg.faults.iter().copied()).collect();
    let hit_names = ["budget_exhausted", "queue_inconsistent", "vacant_slot_popped", "group_created", "group_discarded", "group_rotated", "ordered_rebase", "merge_rearmed", "merge_source_removed"];
    let hit_map: BTreeMap<&str, u64> = hit_names.iter().copied().zip(agg.hits.iter().copied()).collect();
    let ev = serde_json::json!({
        "layer": "L1 fbsim (single-threaded deterministic simulation, real crate code)",
        "property_id": prop,
        "tier": tier,
        "seed": batch,
        "evaluations": agg.runs,
        "run_indices": indices_done,
        "distinct_nontrivial": agg.hashes.len(),
        "nontrivial_runs": agg.nontrivial,
        "rule": "each run = (config, operation trace) generated from splitmix(VERIF_SEED, run index) and interpreted against the real crate next to a reference model; non-trivial = at least one poll with a held child and at least one injected fault; distinct = distinct event-log hash (hash over every op, child poll, child drop, output drop and poll result)",
        "samples": agg.samples,
        "runs_per_hour": if wall > 0.0 { (agg.runs as f64 / wall * 3600.0) as u64 } else { 0 },
        "simulated_steps": agg.steps,
        "subject_polls": agg.polls,
        "child_polls": agg.child_polls,
        "items_yielded": agg.items,
        "faults_fired": fault_map,
        "reach_probes": hit_map,
        "waker_vtable_entries": {"clone": agg.waker_ops[0], "wake": agg.waker_ops[1], "wake_by_ref": agg.waker_ops[2], "drop": agg.waker_ops[3]},
        "waker_blocks_tracked": agg.blocks,
        "distinct_group_layouts": agg.layouts.len(),
        "max_groups": agg.max_groups,
        "peak_held": agg.peak_held,
        "freeze_checks": agg.freeze_checks,
        "freeze_checks_skipped_precondition": agg.freeze_skipped,
        "quiesce_checks": agg.quiesces,
        "max_polls_a_woken_child_waited": agg.max_wait,
        "max_child_polls_in_one_call": agg.max_work,
        "stale_task_waker_invocations": agg.stale_task_wakes,
        "runs_aborted_on_fatal_violation": agg.aborted,
        "runs_per_subject": agg.per_subject,
        "runs_per_workload": agg.per_workload,
        "runs_per_type_shape": agg.per_shape,
        "incidental_violations_of_other_properties": agg.incidental,
        "violations": viol_json,
        "violations_unlisted": violations,
        "known_findings_matched": known_hits,
        "wall_s": wall,
    });
    if let Some(out) = out {
        if let Err(e) = std::fs::write(&out, serde_json::to_string_pretty(&ev).unwrap()) {
            eprintln!("HARNESS-ERROR: cannot write {}: {}", out, e);
            return 2;
        }
    }
    println!(
        "fbsim done property={} runs={} nontrivial_distinct={} wall={:.1}s violations={} known={}",
        prop,
        agg.runs,
        agg.hashes.len(),
        wall,
        violations,
        known_hits.len()
    );
    if violations > 0 {
        1
    } else {
        0
    }
}
