//! The 13 subjects behind one trait. This file is the only place that names the crate's API.

use crate::children::*;
use crate::ops::{Config, Ctor, PushHow, SubjectKind};
use crate::world::{with, Tok};
use futures_buffered::{
    join_all, try_join_all, BufferedStreamExt, BufferedTryStreamExt, FuturesOrdered,
    FuturesOrderedBounded, FuturesUnordered, FuturesUnorderedBounded, MergeBounded, MergeUnbounded,
};
use futures_core::{FusedFuture, FusedStream, Stream};
use std::future::Future;
use std::marker::PhantomPinned;
use std::panic::{catch_unwind, AssertUnwindSafe};
use std::pin::Pin;
use std::task::{Context, Poll};

pub enum PollOut {
    Pending,
    Item(Tok),
    ItemErr(Tok),
    End,
    Done,
    Vec(Vec<Tok>),
    VecErr(Tok),
}

pub enum PushOut {
    Accepted,
    /// refused; the id of the future that was handed back
    Refused(u32),
    Panicked,
    Unsupported,
}

#[derive(Default, Debug, Clone)]
pub struct Obs {
    pub len: Option<usize>,
    pub is_empty: Option<bool>,
    pub size_hint: Option<(usize, Option<usize>)>,
    pub is_terminated: Option<bool>,
    pub capacity: Option<usize>,
    pub layout: Option<(usize, Vec<(usize, usize)>)>,
}

pub trait Subject {
    fn push(&mut self, _id: u32, _how: PushHow) -> PushOut {
        PushOut::Unsupported
    }
    fn extend(&mut self, _ids: Vec<u32>) -> bool {
        false
    }
    fn poll(&mut self, cx: &mut Context<'_>) -> PollOut;
    fn obs(&self) -> Obs;
    /// Move the value to a fresh address. Returns (self, moved?).
    fn relocate(self: Box<Self>) -> (Box<dyn Subject>, bool);
}

fn guard<R>(f: impl FnOnce() -> R) -> Result<R, ()> {
    crate::flags::F.with(|f| f.quiet_panic.set(true));
    let r = catch_unwind(AssertUnwindSafe(f)).map_err(|_| ());
    crate::flags::F.with(|f| f.quiet_panic.set(false));
    r
}

fn map_stream(p: Poll<Option<Tok>>) -> PollOut {
    match p {
        Poll::Pending => PollOut::Pending,
        Poll::Ready(Some(t)) => PollOut::Item(t),
        Poll::Ready(None) => PollOut::End,
    }
}
fn map_try_stream(p: Poll<Option<Result<Tok, Tok>>>) -> PollOut {
    match p {
        Poll::Pending => PollOut::Pending,
        Poll::Ready(Some(Ok(t))) => PollOut::Item(t),
        Poll::Ready(Some(Err(t))) => PollOut::ItemErr(t),
        Poll::Ready(None) => PollOut::End,
    }
}

macro_rules! relocate_unpin {
    () => {
        fn relocate(self: Box<Self>) -> (Box<dyn Subject>, bool) {
            let moved = *self;
            (Box::new(moved), true)
        }
    };
}
macro_rules! relocate_pinned {
    () => {
        fn relocate(self: Box<Self>) -> (Box<dyn Subject>, bool) {
            (self, false)
        }
    };
}

// ---- FuturesUnorderedBounded -----------------------------------------------------------------
struct SFub(FuturesUnorderedBounded<SimFut<Plain>>);
impl Subject for SFub {
    fn push(&mut self, id: u32, how: PushHow) -> PushOut {
        let f = SimFut::new(id);
        match how {
            PushHow::Back | PushHow::Front => match guard(|| self.0.push(f)) {
                Ok(()) => PushOut::Accepted,
                Err(()) => PushOut::Panicked,
            },
            PushHow::TryBack | PushHow::TryFront => match self.0.try_push(f) {
                Ok(()) => PushOut::Accepted,
                Err(f) => PushOut::Refused(f.id),
            },
        }
    }
    fn poll(&mut self, cx: &mut Context<'_>) -> PollOut {
        map_stream(Pin::new(&mut self.0).poll_next(cx))
    }
    fn obs(&self) -> Obs {
        Obs {
            len: Some(self.0.len()),
            is_empty: Some(self.0.is_empty()),
            size_hint: Some(self.0.size_hint()),
            is_terminated: Some(self.0.is_terminated()),
            capacity: Some(self.0.capacity()),
            layout: None,
        }
    }
    relocate_unpin!();
}

// ---- FuturesUnordered ------------------------------------------------------------------------
struct SFu(FuturesUnordered<SimFut<Plain>>);
impl Subject for SFu {
    fn push(&mut self, id: u32, _how: PushHow) -> PushOut {
        let f = SimFut::new(id);
        match guard(|| self.0.push(f)) {
            Ok(()) => PushOut::Accepted,
            Err(()) => PushOut::Panicked,
        }
    }
    fn poll(&mut self, cx: &mut Context<'_>) -> PollOut {
        map_stream(Pin::new(&mut self.0).poll_next(cx))
    }
    fn obs(&self) -> Obs {
        Obs {
            len: Some(self.0.len()),
            is_empty: Some(self.0.is_empty()),
            size_hint: Some(self.0.size_hint()),
            is_terminated: Some(self.0.is_terminated()),
            capacity: None,
            layout: Some(self.0.__verif_layout()),
        }
    }
    relocate_unpin!();
}

// ---- FuturesOrderedBounded -------------------------------------------------------------------
struct SFob(FuturesOrderedBounded<SimFut<Plain>>, usize);
impl Subject for SFob {
    fn push(&mut self, id: u32, how: PushHow) -> PushOut {
        let f = SimFut::new(id);
        match how {
            PushHow::Back => match guard(|| self.0.push_back(f)) {
                Ok(()) => PushOut::Accepted,
                Err(()) => PushOut::Panicked,
            },
            PushHow::Front => match guard(|| self.0.push_front(f)) {
                Ok(()) => PushOut::Accepted,
                Err(()) => PushOut::Panicked,
            },
            PushHow::TryBack => match self.0.try_push_back(f) {
                Ok(()) => PushOut::Accepted,
                Err(f) => PushOut::Refused(f.id),
            },
            PushHow::TryFront => match self.0.try_push_front(f) {
                Ok(()) => PushOut::Accepted,
                Err(f) => PushOut::Refused(f.id),
            },
        }
    }
    fn extend(&mut self, ids: Vec<u32>) -> bool {
        guard(|| self.0.extend(ids.into_iter().map(SimFut::new))).is_ok()
    }
    fn poll(&mut self, cx: &mut Context<'_>) -> PollOut {
        map_stream(Pin::new(&mut self.0).poll_next(cx))
    }
    fn obs(&self) -> Obs {
        Obs {
            len: Some(self.0.len()),
            is_empty: Some(self.0.is_empty()),
            size_hint: Some(self.0.size_hint()),
            is_terminated: Some(self.0.is_terminated()),
            capacity: None,
            layout: None,
        }
    }
    relocate_unpin!();
}

// ---- FuturesOrdered --------------------------------------------------------------------------
struct SFo(FuturesOrdered<SimFut<Plain>>);
impl Subject for SFo {
    fn push(&mut self, id: u32, how: PushHow) -> PushOut {
        let f = SimFut::new(id);
        let r = match how {
            PushHow::Back | PushHow::TryBack => guard(|| self.0.push_back(f)),
            PushHow::Front | PushHow::TryFront => guard(|| self.0.push_front(f)),
        };
        match r {
            Ok(()) => PushOut::Accepted,
            Err(()) => PushOut::Panicked,
        }
    }
    fn extend(&mut self, ids: Vec<u32>) -> bool {
        guard(|| self.0.extend(ids.into_iter().map(SimFut::new))).is_ok()
    }
    fn poll(&mut self, cx: &mut Context<'_>) -> PollOut {
        map_stream(Pin::new(&mut self.0).poll_next(cx))
    }
    fn obs(&self) -> Obs {
        Obs {
            len: Some(self.0.len()),
            is_empty: Some(self.0.is_empty()),
            size_hint: Some(self.0.size_hint()),
            is_terminated: Some(self.0.is_terminated()),
            capacity: None,
            layout: Some(self.0.__verif_layout()),
        }
    }
    relocate_unpin!();
}

// ---- MergeBounded ----------------------------------------------------------------------------
struct SMb(MergeBounded<SimSrc<PhantomPinned>>);
impl Subject for SMb {
    fn push(&mut self, id: u32, how: PushHow) -> PushOut {
        let s = SimSrc::new(id);
        match how {
            PushHow::Back | PushHow::Front => match guard(|| self.0.push(s)) {
                Ok(()) => PushOut::Accepted,
                Err(()) => PushOut::Panicked,
            },
            PushHow::TryBack | PushHow::TryFront => match self.0.try_push(s) {
                Ok(()) => PushOut::Accepted,
                Err(s) => PushOut::Refused(s.id),
            },
        }
    }
    fn poll(&mut self, cx: &mut Context<'_>) -> PollOut {
        map_stream(Pin::new(&mut self.0).poll_next(cx))
    }
    fn obs(&self) -> Obs {
        Obs {
            size_hint: Some(self.0.size_hint()),
            ..Obs::default()
        }
    }
    relocate_unpin!();
}

// ---- MergeUnbounded --------------------------------------------------------------------------
struct SMu(MergeUnbounded<SimSrc<()>>);
impl Subject for SMu {
    fn push(&mut self, id: u32, _how: PushHow) -> PushOut {
        let s = SimSrc::new(id);
        match guard(|| self.0.push(s)) {
            Ok(()) => PushOut::Accepted,
            Err(()) => PushOut::Panicked,
        }
    }
    fn poll(&mut self, cx: &mut Context<'_>) -> PollOut {
        map_stream(Pin::new(&mut self.0).poll_next(cx))
    }
    fn obs(&self) -> Obs {
        Obs {
            len: Some(self.0.len()),
            is_empty: Some(self.0.is_empty()),
            size_hint: Some(self.0.size_hint()),
            layout: Some(self.0.__verif_layout()),
            ..Obs::default()
        }
    }
    relocate_unpin!();
}

// ---- adapters --------------------------------------------------------------------------------
struct SBu(Pin<Box<futures_buffered::BufferUnordered<SimUp<UpPlain>>>>);
impl Subject for SBu {
    fn poll(&mut self, cx: &mut Context<'_>) -> PollOut {
        map_stream(self.0.as_mut().poll_next(cx))
    }
    fn obs(&self) -> Obs {
        Obs {
            size_hint: Some(self.0.size_hint()),
            ..Obs::default()
        }
    }
    relocate_pinned!();
}
struct SBo(Pin<Box<futures_buffered::BufferedOrdered<SimUp<UpPlain>>>>);
impl Subject for SBo {
    fn poll(&mut self, cx: &mut Context<'_>) -> PollOut {
        map_stream(self.0.as_mut().poll_next(cx))
    }
    fn obs(&self) -> Obs {
        Obs {
            size_hint: Some(self.0.size_hint()),
            ..Obs::default()
        }
    }
    relocate_pinned!();
}
struct STbu(Pin<Box<futures_buffered::TryBufferUnordered<SimUp<UpTry>>>>);
impl Subject for STbu {
    fn poll(&mut self, cx: &mut Context<'_>) -> PollOut {
        map_try_stream(self.0.as_mut().poll_next(cx))
    }
    fn obs(&self) -> Obs {
        Obs {
            size_hint: Some(self.0.size_hint()),
            ..Obs::default()
        }
    }
    relocate_pinned!();
}
struct STbo(Pin<Box<futures_buffered::TryBufferedOrdered<SimUp<UpTry>>>>);
impl Subject for STbo {
    fn poll(&mut self, cx: &mut Context<'_>) -> PollOut {
        map_try_stream(self.0.as_mut().poll_next(cx))
    }
    fn obs(&self) -> Obs {
        Obs {
            size_hint: Some(self.0.size_hint()),
            ..Obs::default()
        }
    }
    relocate_pinned!();
}
type FecFn = fn(u32) -> SimFut<Unit>;
struct SFec(Pin<Box<dyn FusedFuture<Output = ()>>>);
impl Subject for SFec {
    fn poll(&mut self, cx: &mut Context<'_>) -> PollOut {
        match self.0.as_mut().poll(cx) {
            Poll::Pending => PollOut::Pending,
            Poll::Ready(()) => PollOut::Done,
        }
    }
    fn obs(&self) -> Obs {
        Obs {
            is_terminated: Some(self.0.is_terminated()),
            ..Obs::default()
        }
    }
    relocate_pinned!();
}

// ---- joins -----------------------------------------------------------------------------------
struct SJa(futures_buffered::JoinAll<SimFut<Plain>>);
impl Subject for SJa {
    fn poll(&mut self, cx: &mut Context<'_>) -> PollOut {
        match Pin::new(&mut self.0).poll(cx) {
            Poll::Pending => PollOut::Pending,
            Poll::Ready(v) => PollOut::Vec(v),
        }
    }
    fn obs(&self) -> Obs {
        Obs::default()
    }
    relocate_unpin!();
}
struct STja(futures_buffered::TryJoinAll<SimFut<Try>>);
impl Subject for STja {
    fn poll(&mut self, cx: &mut Context<'_>) -> PollOut {
        match Pin::new(&mut self.0).poll(cx) {
            Poll::Pending => PollOut::Pending,
            Poll::Ready(Ok(v)) => PollOut::Vec(v),
            Poll::Ready(Err(e)) => PollOut::VecErr(e),
        }
    }
    fn obs(&self) -> Obs {
        Obs::default()
    }
    relocate_unpin!();
}

/// Build the subject. `initial` are ids of children already created and accepted in the world.
/// `Err` = the constructor panicked.
pub fn build(cfg: &Config, initial: Vec<u32>) -> Result<Box<dyn Subject>, ()> {
    let cap = cfg.cap;
    let sp = cfg.start_pos;
    guard(move || -> Box<dyn Subject> {
        crate::flags::in_crate(|| -> Box<dyn Subject> {
            match cfg.subject {
                SubjectKind::FUB => match cfg.ctor {
                    Ctor::Collect => Box::new(SFub(initial.into_iter().map(SimFut::new).collect())),
                    _ => Box::new(SFub(FuturesUnorderedBounded::new(cap))),
                },
                SubjectKind::FU => match cfg.ctor {
                    Ctor::Collect => Box::new(SFu(initial.into_iter().map(SimFut::new).collect())),
                    Ctor::WithCapacity => Box::new(SFu(FuturesUnordered::with_capacity(cap))),
                    Ctor::New => Box::new(SFu(FuturesUnordered::new())),
                },
                SubjectKind::FOB => {
                    let mut q = match cfg.ctor {
                        Ctor::Collect => initial.into_iter().map(SimFut::new).collect(),
                        _ => FuturesOrderedBounded::new(cap),
                    };
                    if let Some(p) = sp {
                        if cfg.ctor != Ctor::Collect {
                            q.__verif_set_position(p);
                        }
                    }
                    Box::new(SFob(q, cap))
                }
                SubjectKind::FO => {
                    let mut q = match cfg.ctor {
                        Ctor::Collect => initial.into_iter().map(SimFut::new).collect(),
                        Ctor::WithCapacity => FuturesOrdered::with_capacity(cap),
                        Ctor::New => FuturesOrdered::new(),
                    };
                    if let Some(p) = sp {
                        if cfg.ctor != Ctor::Collect {
                            q.__verif_set_position(p);
                        }
                    }
                    Box::new(SFo(q))
                }
                SubjectKind::MB => Box::new(SMb(initial.into_iter().map(SimSrc::new).collect())),
                SubjectKind::MU => match cfg.ctor {
                    Ctor::Collect => Box::new(SMu(initial.into_iter().map(SimSrc::new).collect())),
                    _ => Box::new(SMu(MergeUnbounded::new())),
                },
                SubjectKind::BU => Box::new(SBu(Box::pin(SimUp::<UpPlain>::new().buffered_unordered(cap)))),
                SubjectKind::BO => {
                    let mut a = Box::pin(SimUp::<UpPlain>::new().buffered_ordered(cap));
                    if let Some(p) = sp {
                        // SAFETY: only a counter is written; nothing is moved
                        unsafe { a.as_mut().get_unchecked_mut() }.__verif_set_position(p);
                    }
                    Box::new(SBo(a))
                }
                SubjectKind::TBU => {
                    Box::new(STbu(Box::pin(SimUp::<UpTry>::new().try_buffered_unordered(cap))))
                }
                SubjectKind::TBO => {
                    let mut a = Box::pin(SimUp::<UpTry>::new().try_buffered_ordered(cap));
                    if let Some(p) = sp {
                        // SAFETY: only a counter is written; nothing is moved
                        unsafe { a.as_mut().get_unchecked_mut() }.__verif_set_position(p);
                    }
                    Box::new(STbo(a))
                }
                SubjectKind::FEC => {
                    let f: FecFn = |id| SimFut::new(id);
                    Box::new(SFec(Box::pin(SimUp::<UpIdx>::new().for_each_concurrent(cap, f))
                        as Pin<Box<dyn FusedFuture<Output = ()>>>))
                }
                SubjectKind::JA => Box::new(SJa(join_all(initial.into_iter().map(SimFut::new)))),
                SubjectKind::TJA => {
                    Box::new(STja(try_join_all(initial.into_iter().map(SimFut::new))))
                }
            }
        })
    })
}

#[allow(dead_code)]
pub fn touch() {
    with(|_| ());
}
