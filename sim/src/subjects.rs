//! The 13 subjects behind one trait. This file is the only place that names the crate's API.

use crate::children::*;
use crate::ops::{Config, Ctor, PushHow, SubjectKind};
use crate::world::{with, Tok, K_ANON};
use futures_buffered::{
    join_all, try_join_all, BufferedStreamExt, BufferedTryStreamExt, FuturesOrdered,
    FuturesOrderedBounded, FuturesUnordered, FuturesUnorderedBounded, MergeBounded, MergeUnbounded,
};
use futures_core::{FusedFuture, FusedStream, Stream};
use std::future::Future;
use std::marker::PhantomPinned;
use std::panic::{catch_unwind, AssertUnwindSafe};
use std::pin::Pin;
use std::task::{Context, Poll};

pub enum PollOut {
    Pending,
    Item(Tok),
    ItemErr(Tok),
    End,
    Done,
    Vec(Vec<Tok>),
    /// a Vec of zero-sized outputs (no identities): its length
    VecZst(usize),
    VecErr(Tok),
}

pub enum PushOut {
    Accepted,
    /// refused; the id of the future that was handed back
    Refused(u32),
    Panicked,
    Unsupported,
}

#[derive(Default, Debug, Clone)]
pub struct Obs {
    pub len: Option<usize>,
    pub is_empty: Option<bool>,
    pub size_hint: Option<(usize, Option<usize>)>,
    pub is_terminated: Option<bool>,
    pub capacity: Option<usize>,
    pub layout: Option<(usize, Vec<(usize, usize)>)>,
}

pub trait Subject {
    fn push(&mut self, _id: u32, _how: PushHow) -> PushOut {
        PushOut::Unsupported
    }
    fn extend(&mut self, _ids: Vec<u32>) -> bool {
        false
    }
    fn poll(&mut self, cx: &mut Context<'_>) -> PollOut;
    fn obs(&self) -> Obs;
    /// Move the value to a fresh address. Returns (self, moved?).
    fn relocate(self: Box<Self>) -> (Box<dyn Subject>, bool);
}

/// An iterator whose size_hint lies (which safe code may do): the lower bound over-reports and/or
/// the upper bound under-reports.
struct LyingIter<I> {
    inner: I,
    add_lower: usize,
    upper: Option<usize>,
}
impl<I: Iterator> Iterator for LyingIter<I> {
    type Item = I::Item;
    fn next(&mut self) -> Option<I::Item> {
        self.inner.next()
    }
    fn size_hint(&self) -> (usize, Option<usize>) {
        let (lo, _) = self.inner.size_hint();
        (lo + self.add_lower, self.upper)
    }
}

/// collect()/extend() from an iterator with an inexact size hint in this run?
fn inexact() -> bool {
    with(|w| w.inexact_iter)
}

fn guard<R>(f: impl FnOnce() -> R) -> Result<R, ()> {
    crate::flags::F.with(|f| f.quiet_panic.set(true));
    let r = catch_unwind(AssertUnwindSafe(f)).map_err(|_| ());
    crate::flags::F.with(|f| f.quiet_panic.set(false));
    r
}

fn map_stream(p: Poll<Option<Tok>>) -> PollOut {
    match p {
        Poll::Pending => PollOut::Pending,
        Poll::Ready(Some(t)) => PollOut::Item(t),
        Poll::Ready(None) => PollOut::End,
    }
}
fn map_try_stream(p: Poll<Option<Result<Tok, Tok>>>) -> PollOut {
    match p {
        Poll::Pending => PollOut::Pending,
        Poll::Ready(Some(Ok(t))) => PollOut::Item(t),
        Poll::Ready(Some(Err(t))) => PollOut::ItemErr(t),
        Poll::Ready(None) => PollOut::End,
    }
}

macro_rules! relocate_unpin {
    () => {
        fn relocate(self: Box<Self>) -> (Box<dyn Subject>, bool) {
            let moved = *self;
            (Box::new(moved), true)
        }
    };
}
macro_rules! relocate_pinned {
    () => {
        fn relocate(self: Box<Self>) -> (Box<dyn Subject>, bool) {
            (self, false)
        }
    };
}

// ---- children of any type shape ----------------------------------------------------------------
pub trait Child: Future {
    fn make(id: u32) -> Self;
    fn cid(&self) -> u32;
}
impl<M: OutMode> Child for SimFut<M> {
    fn make(id: u32) -> Self {
        SimFut::new(id)
    }
    fn cid(&self) -> u32 {
        self.id
    }
}
impl<M: OutMode> Child for BigFut<M> {
    fn make(id: u32) -> Self {
        BigFut::new(id)
    }
    fn cid(&self) -> u32 {
        self.id
    }
}
impl<M: OutMode> Child for NdFut<M> {
    fn make(id: u32) -> Self {
        NdFut::new(id)
    }
    fn cid(&self) -> u32 {
        self.id
    }
}
/// Outputs of any shape, brought back into the tracked form at the harness boundary.
pub trait IntoTok {
    fn into_tok(self) -> Tok;
}
impl IntoTok for Tok {
    fn into_tok(self) -> Tok {
        self
    }
}
impl IntoTok for RawTok {
    fn into_tok(self) -> Tok {
        RawTok::into_tok(self)
    }
}
/// A zero-sized output cannot say which child produced it: the harness gets an anonymous token and
/// the model decides which finished child it stands for.
impl IntoTok for ZTok {
    fn into_tok(self) -> Tok {
        let t = with(|w| {
            let t = w.new_tok(u32::MAX, 0, K_ANON);
            w.toks[t.id as usize].nodrop = false;
            t
        });
        drop(self);
        t
    }
}
fn map_stream_g<T: IntoTok>(p: Poll<Option<T>>) -> PollOut {
    match p {
        Poll::Pending => PollOut::Pending,
        Poll::Ready(Some(t)) => PollOut::Item(t.into_tok()),
        Poll::Ready(None) => PollOut::End,
    }
}

// ---- FuturesUnorderedBounded -----------------------------------------------------------------
struct SFub<F>(FuturesUnorderedBounded<F>);
impl<F: Child + 'static> Subject for SFub<F>
where
    F::Output: IntoTok,
{
    fn push(&mut self, id: u32, how: PushHow) -> PushOut {
        let f = F::make(id);
        match how {
            PushHow::Back | PushHow::Front => match guard(|| self.0.push(f)) {
                Ok(()) => PushOut::Accepted,
                Err(()) => PushOut::Panicked,
            },
            PushHow::TryBack | PushHow::TryFront => match self.0.try_push(f) {
                Ok(()) => PushOut::Accepted,
                Err(f) => PushOut::Refused(f.cid()),
            },
        }
    }
    fn poll(&mut self, cx: &mut Context<'_>) -> PollOut {
        map_stream_g(Pin::new(&mut self.0).poll_next(cx))
    }
    fn obs(&self) -> Obs {
        Obs {
            len: Some(self.0.len()),
            is_empty: Some(self.0.is_empty()),
            size_hint: Some(self.0.size_hint()),
            is_terminated: Some(self.0.is_terminated()),
            capacity: Some(self.0.capacity()),
            layout: None,
        }
    }
    relocate_unpin!();
}

// ---- FuturesUnordered ------------------------------------------------------------------------
struct SFu<F>(FuturesUnordered<F>);
impl<F: Child + 'static> Subject for SFu<F>
where
    F::Output: IntoTok,
{
    fn push(&mut self, id: u32, _how: PushHow) -> PushOut {
        let f = F::make(id);
        match guard(|| self.0.push(f)) {
            Ok(()) => PushOut::Accepted,
            Err(()) => PushOut::Panicked,
        }
    }
    fn poll(&mut self, cx: &mut Context<'_>) -> PollOut {
        map_stream_g(Pin::new(&mut self.0).poll_next(cx))
    }
    fn obs(&self) -> Obs {
        Obs {
            len: Some(self.0.len()),
            is_empty: Some(self.0.is_empty()),
            size_hint: Some(self.0.size_hint()),
            is_terminated: Some(self.0.is_terminated()),
            capacity: None,
            layout: Some(self.0.__verif_layout()),
        }
    }
    relocate_unpin!();
}

// ---- FuturesOrderedBounded -------------------------------------------------------------------
struct SFob<F: Future>(FuturesOrderedBounded<F>);
impl<F: Child + 'static> Subject for SFob<F>
where
    F::Output: IntoTok,
{
    fn push(&mut self, id: u32, how: PushHow) -> PushOut {
        let f = F::make(id);
        match how {
            PushHow::Back => match guard(|| self.0.push_back(f)) {
                Ok(()) => PushOut::Accepted,
                Err(()) => PushOut::Panicked,
            },
            PushHow::Front => match guard(|| self.0.push_front(f)) {
                Ok(()) => PushOut::Accepted,
                Err(()) => PushOut::Panicked,
            },
            PushHow::TryBack => match self.0.try_push_back(f) {
                Ok(()) => PushOut::Accepted,
                Err(f) => PushOut::Refused(f.cid()),
            },
            PushHow::TryFront => match self.0.try_push_front(f) {
                Ok(()) => PushOut::Accepted,
                Err(f) => PushOut::Refused(f.cid()),
            },
        }
    }
    fn extend(&mut self, ids: Vec<u32>) -> bool {
        if inexact() {
            guard(|| self.0.extend(ids.into_iter().filter(|_| true).map(F::make))).is_ok()
        } else {
            guard(|| self.0.extend(ids.into_iter().map(F::make))).is_ok()
        }
    }
    fn poll(&mut self, cx: &mut Context<'_>) -> PollOut {
        map_stream_g(Pin::new(&mut self.0).poll_next(cx))
    }
    fn obs(&self) -> Obs {
        Obs {
            len: Some(self.0.len()),
            is_empty: Some(self.0.is_empty()),
            size_hint: Some(self.0.size_hint()),
            is_terminated: Some(self.0.is_terminated()),
            capacity: None,
            layout: None,
        }
    }
    relocate_unpin!();
}

// ---- FuturesOrdered --------------------------------------------------------------------------
struct SFo<F: Future>(FuturesOrdered<F>);
impl<F: Child + 'static> Subject for SFo<F>
where
    F::Output: IntoTok,
{
    fn push(&mut self, id: u32, how: PushHow) -> PushOut {
        let f = F::make(id);
        let r = match how {
            PushHow::Back | PushHow::TryBack => guard(|| self.0.push_back(f)),
            PushHow::Front | PushHow::TryFront => guard(|| self.0.push_front(f)),
        };
        match r {
            Ok(()) => PushOut::Accepted,
            Err(()) => PushOut::Panicked,
        }
    }
    fn extend(&mut self, ids: Vec<u32>) -> bool {
        if inexact() {
            guard(|| self.0.extend(ids.into_iter().filter(|_| true).map(F::make))).is_ok()
        } else {
            guard(|| self.0.extend(ids.into_iter().map(F::make))).is_ok()
        }
    }
    fn poll(&mut self, cx: &mut Context<'_>) -> PollOut {
        map_stream_g(Pin::new(&mut self.0).poll_next(cx))
    }
    fn obs(&self) -> Obs {
        Obs {
            len: Some(self.0.len()),
            is_empty: Some(self.0.is_empty()),
            size_hint: Some(self.0.size_hint()),
            is_terminated: Some(self.0.is_terminated()),
            capacity: None,
            layout: Some(self.0.__verif_layout()),
        }
    }
    relocate_unpin!();
}

// ---- merge sources of any shape ---------------------------------------------------------------
pub trait SrcChild: Stream {
    fn make(id: u32) -> Self;
    fn cid(&self) -> u32;
}
impl<P, M: OutMode> SrcChild for SimSrc<P, M> {
    fn make(id: u32) -> Self {
        SimSrc::new(id)
    }
    fn cid(&self) -> u32 {
        self.id
    }
}
impl<P, M: OutMode> SrcChild for NdSrc<P, M> {
    fn make(id: u32) -> Self {
        NdSrc::new(id)
    }
    fn cid(&self) -> u32 {
        self.id
    }
}

// ---- MergeBounded ----------------------------------------------------------------------------
struct SMb<S>(MergeBounded<S>);
impl<S: SrcChild + 'static> Subject for SMb<S>
where
    S::Item: IntoTok,
{
    fn push(&mut self, id: u32, how: PushHow) -> PushOut {
        let s = S::make(id);
        match how {
            PushHow::Back | PushHow::Front => match guard(|| self.0.push(s)) {
                Ok(()) => PushOut::Accepted,
                Err(()) => PushOut::Panicked,
            },
            PushHow::TryBack | PushHow::TryFront => match self.0.try_push(s) {
                Ok(()) => PushOut::Accepted,
                Err(s) => PushOut::Refused(s.cid()),
            },
        }
    }
    fn poll(&mut self, cx: &mut Context<'_>) -> PollOut {
        map_stream_g(Pin::new(&mut self.0).poll_next(cx))
    }
    fn obs(&self) -> Obs {
        Obs {
            size_hint: Some(self.0.size_hint()),
            ..Obs::default()
        }
    }
    relocate_unpin!();
}

// ---- MergeUnbounded --------------------------------------------------------------------------
struct SMu<S>(MergeUnbounded<S>);
impl<S: SrcChild + Unpin + 'static> Subject for SMu<S>
where
    S::Item: IntoTok,
{
    fn push(&mut self, id: u32, _how: PushHow) -> PushOut {
        let s = S::make(id);
        match guard(|| self.0.push(s)) {
            Ok(()) => PushOut::Accepted,
            Err(()) => PushOut::Panicked,
        }
    }
    fn poll(&mut self, cx: &mut Context<'_>) -> PollOut {
        map_stream_g(Pin::new(&mut self.0).poll_next(cx))
    }
    fn obs(&self) -> Obs {
        Obs {
            len: Some(self.0.len()),
            is_empty: Some(self.0.is_empty()),
            size_hint: Some(self.0.size_hint()),
            layout: Some(self.0.__verif_layout()),
            ..Obs::default()
        }
    }
    relocate_unpin!();
}

// ---- adapters --------------------------------------------------------------------------------
fn map_try_stream_g<A: IntoTok, B: IntoTok>(p: Poll<Option<Result<A, B>>>) -> PollOut {
    match p {
        Poll::Pending => PollOut::Pending,
        Poll::Ready(Some(Ok(t))) => PollOut::Item(t.into_tok()),
        Poll::Ready(Some(Err(t))) => PollOut::ItemErr(t.into_tok()),
        Poll::Ready(None) => PollOut::End,
    }
}
struct SBu<F: Future + MakeFut>(Pin<Box<futures_buffered::BufferUnordered<SimUp<UpG<F>>>>>);
impl<F: Future + MakeFut> Subject for SBu<F>
where
    F::Output: IntoTok,
{
    fn poll(&mut self, cx: &mut Context<'_>) -> PollOut {
        map_stream_g(self.0.as_mut().poll_next(cx))
    }
    fn obs(&self) -> Obs {
        Obs {
            size_hint: Some(self.0.size_hint()),
            ..Obs::default()
        }
    }
    relocate_pinned!();
}
struct SBo<F: Future + MakeFut>(Pin<Box<futures_buffered::BufferedOrdered<SimUp<UpG<F>>>>>);
impl<F: Future + MakeFut> Subject for SBo<F>
where
    F::Output: IntoTok,
{
    fn poll(&mut self, cx: &mut Context<'_>) -> PollOut {
        map_stream_g(self.0.as_mut().poll_next(cx))
    }
    fn obs(&self) -> Obs {
        Obs {
            size_hint: Some(self.0.size_hint()),
            ..Obs::default()
        }
    }
    relocate_pinned!();
}
struct STbu<F, A, E>(Pin<Box<futures_buffered::TryBufferUnordered<SimUp<UpTryG<F, E>>>>>)
where
    F: Future<Output = Result<A, E>> + MakeFut,
    E: FromTok;
impl<F, A, E> Subject for STbu<F, A, E>
where
    F: Future<Output = Result<A, E>> + MakeFut,
    A: IntoTok + 'static,
    E: FromTok + IntoTok,
{
    fn poll(&mut self, cx: &mut Context<'_>) -> PollOut {
        map_try_stream_g(self.0.as_mut().poll_next(cx))
    }
    fn obs(&self) -> Obs {
        Obs {
            size_hint: Some(self.0.size_hint()),
            ..Obs::default()
        }
    }
    relocate_pinned!();
}
struct STbo<F, A, E>(Pin<Box<futures_buffered::TryBufferedOrdered<SimUp<UpTryG<F, E>>>>>)
where
    F: Future<Output = Result<A, E>> + MakeFut,
    E: FromTok;
impl<F, A, E> Subject for STbo<F, A, E>
where
    F: Future<Output = Result<A, E>> + MakeFut,
    A: IntoTok + 'static,
    E: FromTok + IntoTok,
{
    fn poll(&mut self, cx: &mut Context<'_>) -> PollOut {
        map_try_stream_g(self.0.as_mut().poll_next(cx))
    }
    fn obs(&self) -> Obs {
        Obs {
            size_hint: Some(self.0.size_hint()),
            ..Obs::default()
        }
    }
    relocate_pinned!();
}
type FecFn = fn(u32) -> SimFut<Unit>;
struct SFec(Pin<Box<dyn FusedFuture<Output = ()>>>);
impl Subject for SFec {
    fn poll(&mut self, cx: &mut Context<'_>) -> PollOut {
        match self.0.as_mut().poll(cx) {
            Poll::Pending => PollOut::Pending,
            Poll::Ready(()) => PollOut::Done,
        }
    }
    fn obs(&self) -> Obs {
        Obs {
            is_terminated: Some(self.0.is_terminated()),
            ..Obs::default()
        }
    }
    relocate_pinned!();
}

// ---- joins -----------------------------------------------------------------------------------
struct SJa<F: Future>(futures_buffered::JoinAll<F>);
impl<F: Child + 'static> Subject for SJa<F>
where
    F::Output: IntoTok,
{
    fn poll(&mut self, cx: &mut Context<'_>) -> PollOut {
        match Pin::new(&mut self.0).poll(cx) {
            Poll::Pending => PollOut::Pending,
            Poll::Ready(v) => PollOut::Vec(crate::flags::in_world(|| v.into_iter().map(IntoTok::into_tok).collect())),
        }
    }
    fn obs(&self) -> Obs {
        Obs::default()
    }
    relocate_unpin!();
}
/// joins whose outputs are zero-sized tokens with a destructor
struct SJaZ<F: Future>(futures_buffered::JoinAll<F>);
impl<F: Child<Output = ZTok> + 'static> Subject for SJaZ<F> {
    fn poll(&mut self, cx: &mut Context<'_>) -> PollOut {
        match Pin::new(&mut self.0).poll(cx) {
            Poll::Pending => PollOut::Pending,
            Poll::Ready(v) => {
                let n = v.len();
                drop(v);
                PollOut::VecZst(n)
            }
        }
    }
    fn obs(&self) -> Obs {
        Obs::default()
    }
    relocate_unpin!();
}
struct STjaZ<F: futures_buffered::TryFuture>(futures_buffered::TryJoinAll<F>);
impl<F: Child<Output = Result<ZTok, Tok>> + 'static> Subject for STjaZ<F> {
    fn poll(&mut self, cx: &mut Context<'_>) -> PollOut {
        match Pin::new(&mut self.0).poll(cx) {
            Poll::Pending => PollOut::Pending,
            Poll::Ready(Ok(v)) => {
                let n = v.len();
                drop(v);
                PollOut::VecZst(n)
            }
            Poll::Ready(Err(e)) => PollOut::VecErr(e),
        }
    }
    fn obs(&self) -> Obs {
        Obs::default()
    }
    relocate_unpin!();
}

struct STja<F: futures_buffered::TryFuture>(futures_buffered::TryJoinAll<F>);
impl<F, A, B> Subject for STja<F>
where
    F: Child<Output = Result<A, B>> + 'static,
    A: IntoTok,
    B: IntoTok,
{
    fn poll(&mut self, cx: &mut Context<'_>) -> PollOut {
        match Pin::new(&mut self.0).poll(cx) {
            Poll::Pending => PollOut::Pending,
            Poll::Ready(Ok(v)) => PollOut::Vec(crate::flags::in_world(|| v.into_iter().map(IntoTok::into_tok).collect())),
            Poll::Ready(Err(e)) => PollOut::VecErr(e.into_tok()),
        }
    }
    fn obs(&self) -> Obs {
        Obs::default()
    }
    relocate_unpin!();
}

/// Build the subject. `initial` are ids of children already created and accepted in the world.
/// `Err` = the constructor panicked.
pub fn build(cfg: &Config, initial: Vec<u32>) -> Result<Box<dyn Subject>, ()> {
    let cap = cfg.cap;
    let sp = cfg.start_pos;
    guard(move || -> Box<dyn Subject> {
        crate::flags::in_crate(|| -> Box<dyn Subject> {
            // collect() from an exact or an inexact iterator
            let inexact_it = cfg.inexact_iter;
            let initial: Box<dyn Iterator<Item = u32>> = match cfg.iter_kind {
                2 => Box::new(LyingIter {
                    inner: initial.into_iter(),
                    add_lower: 3,
                    upper: None,
                }),
                3 => {
                    // every second entry is filtered out: (0, Some(2n)) for n items
                    let sparse: Vec<Option<u32>> = initial.into_iter().flat_map(|i| [Some(i), None]).collect();
                    Box::new(sparse.into_iter().flatten())
                }
                4 => {
                    let n = initial.len();
                    Box::new(LyingIter {
                        inner: initial.into_iter(),
                        add_lower: 0,
                        upper: Some(n.saturating_sub(1)),
                    })
                }
                _ if inexact_it => Box::new(initial.into_iter().filter(|_| true)),
                _ => Box::new(initial.into_iter()),
            };
            // type shapes: (future with/without drop glue) x (output with/without drop glue)
            macro_rules! coll {
                ($F:ty) => {
                    match cfg.subject {
                        SubjectKind::FUB => match cfg.ctor {
                            Ctor::Collect => Box::new(SFub::<$F>(initial.map(<$F as Child>::make).collect())) as Box<dyn Subject>,
                            _ => Box::new(SFub::<$F>(FuturesUnorderedBounded::new(cap))),
                        },
                        SubjectKind::FU => match cfg.ctor {
                            Ctor::Collect => Box::new(SFu::<$F>(initial.map(<$F as Child>::make).collect())),
                            Ctor::WithCapacity => Box::new(SFu::<$F>(FuturesUnordered::with_capacity(cap))),
                            Ctor::New => Box::new(SFu::<$F>(FuturesUnordered::new())),
                        },
                        SubjectKind::FOB => {
                            let mut q: FuturesOrderedBounded<$F> = match cfg.ctor {
                                Ctor::Collect => initial.map(<$F as Child>::make).collect(),
                                _ => FuturesOrderedBounded::new(cap),
                            };
                            if let Some(p) = sp {
                                if cfg.ctor != Ctor::Collect {
                                    q.__verif_set_position(p);
                                }
                            }
                            Box::new(SFob(q))
                        }
                        SubjectKind::FO => {
                            let mut q: FuturesOrdered<$F> = match cfg.ctor {
                                Ctor::Collect => initial.map(<$F as Child>::make).collect(),
                                Ctor::WithCapacity => FuturesOrdered::with_capacity(cap),
                                Ctor::New => FuturesOrdered::new(),
                            };
                            if let Some(p) = sp {
                                if cfg.ctor != Ctor::Collect {
                                    q.__verif_set_position(p);
                                }
                            }
                            Box::new(SFo(q))
                        }
                        SubjectKind::JA => Box::new(SJa::<$F>(join_all(initial.map(<$F as Child>::make)))),
                        _ => unreachable!(),
                    }
                };
            }
            match cfg.subject {
                SubjectKind::JA if cfg.shape & 4 != 0 => {
                    if cfg.shape & 1 != 0 {
                        Box::new(SJaZ(join_all(initial.map(NdFut::<PlainZst>::new))))
                    } else {
                        Box::new(SJaZ(join_all(initial.map(SimFut::<PlainZst>::new))))
                    }
                }
                SubjectKind::TJA if cfg.shape & 4 != 0 => {
                    if cfg.shape & 1 != 0 {
                        Box::new(STjaZ(try_join_all(initial.map(NdFut::<TryZst>::new))))
                    } else {
                        Box::new(STjaZ(try_join_all(initial.map(SimFut::<TryZst>::new))))
                    }
                }
                SubjectKind::FUB | SubjectKind::FU | SubjectKind::FOB | SubjectKind::FO if cfg.shape & 4 != 0 => {
                    if cfg.shape & 1 != 0 {
                        coll!(NdFut<PlainZst>)
                    } else {
                        coll!(SimFut<PlainZst>)
                    }
                }
                SubjectKind::FUB | SubjectKind::FU | SubjectKind::FOB | SubjectKind::FO | SubjectKind::JA if cfg.shape & 8 != 0 => {
                    coll!(BigFut<Plain>)
                }
                SubjectKind::FUB | SubjectKind::FU | SubjectKind::FOB | SubjectKind::FO | SubjectKind::JA => match cfg.shape & 3 {
                    0 => coll!(SimFut<Plain>),
                    1 => coll!(NdFut<Plain>),
                    2 => coll!(SimFut<PlainRaw>),
                    _ => coll!(NdFut<PlainRaw>),
                },
                SubjectKind::TJA => match cfg.shape & 3 {
                    0 => Box::new(STja(try_join_all(initial.map(SimFut::<Try>::new)))),
                    1 => Box::new(STja(try_join_all(initial.map(NdFut::<Try>::new)))),
                    2 => Box::new(STja(try_join_all(initial.map(SimFut::<TryRaw>::new)))),
                    _ => Box::new(STja(try_join_all(initial.map(NdFut::<TryRaw>::new)))),
                },
                SubjectKind::MB => match cfg.shape & 3 {
                    0 => Box::new(SMb(initial.map(SimSrc::<PhantomPinned, Plain>::new).collect::<MergeBounded<_>>())),
                    1 => Box::new(SMb(initial.map(NdSrc::<PhantomPinned, Plain>::new).collect::<MergeBounded<_>>())),
                    2 => Box::new(SMb(initial.map(SimSrc::<PhantomPinned, PlainRaw>::new).collect::<MergeBounded<_>>())),
                    _ => Box::new(SMb(initial.map(NdSrc::<PhantomPinned, PlainRaw>::new).collect::<MergeBounded<_>>())),
                },
                SubjectKind::MU => {
                    macro_rules! mu {
                        ($S:ty) => {
                            match cfg.ctor {
                                Ctor::Collect => Box::new(SMu(initial.map(<$S>::new).collect::<MergeUnbounded<$S>>())) as Box<dyn Subject>,
                                _ => Box::new(SMu(MergeUnbounded::<$S>::new())),
                            }
                        };
                    }
                    match cfg.shape & 3 {
                        0 => mu!(SimSrc<(), Plain>),
                        1 => mu!(NdSrc<(), Plain>),
                        2 => mu!(SimSrc<(), PlainRaw>),
                        _ => mu!(NdSrc<(), PlainRaw>),
                    }
                }
                SubjectKind::BU if cfg.shape & 4 != 0 => {
                    if cfg.shape & 1 != 0 {
                        Box::new(SBu(Box::pin(SimUp::<UpG<NdFut<PlainZst>>>::new().buffered_unordered(cap))))
                    } else {
                        Box::new(SBu(Box::pin(SimUp::<UpG<SimFut<PlainZst>>>::new().buffered_unordered(cap))))
                    }
                }
                SubjectKind::BU => match cfg.shape & 3 {
                    0 => Box::new(SBu(Box::pin(SimUp::<UpG<SimFut<Plain>>>::new().buffered_unordered(cap)))),
                    1 => Box::new(SBu(Box::pin(SimUp::<UpG<NdFut<Plain>>>::new().buffered_unordered(cap)))),
                    2 => Box::new(SBu(Box::pin(SimUp::<UpG<SimFut<PlainRaw>>>::new().buffered_unordered(cap)))),
                    _ => Box::new(SBu(Box::pin(SimUp::<UpG<NdFut<PlainRaw>>>::new().buffered_unordered(cap)))),
                },
                SubjectKind::BO => {
                    macro_rules! bo {
                        ($F:ty) => {{
                            let mut a = Box::pin(SimUp::<UpG<$F>>::new().buffered_ordered(cap));
                            if let Some(p) = sp {
                                // SAFETY: only a counter is written; nothing is moved
                                unsafe { a.as_mut().get_unchecked_mut() }.__verif_set_position(p);
                            }
                            Box::new(SBo(a)) as Box<dyn Subject>
                        }};
                    }
                    match cfg.shape & 7 {
                        4 | 6 => bo!(SimFut<PlainZst>),
                        5 | 7 => bo!(NdFut<PlainZst>),
                        0 => bo!(SimFut<Plain>),
                        1 => bo!(NdFut<Plain>),
                        2 => bo!(SimFut<PlainRaw>),
                        _ => bo!(NdFut<PlainRaw>),
                    }
                }
                SubjectKind::TBU if cfg.shape & 4 != 0 => {
                    if cfg.shape & 1 != 0 {
                        Box::new(STbu(Box::pin(SimUp::<UpTryG<NdFut<TryZst>, Tok>>::new().try_buffered_unordered(cap))))
                    } else {
                        Box::new(STbu(Box::pin(SimUp::<UpTryG<SimFut<TryZst>, Tok>>::new().try_buffered_unordered(cap))))
                    }
                }
                SubjectKind::TBU => match cfg.shape & 3 {
                    0 => Box::new(STbu(Box::pin(SimUp::<UpTryG<SimFut<Try>, Tok>>::new().try_buffered_unordered(cap)))),
                    1 => Box::new(STbu(Box::pin(SimUp::<UpTryG<NdFut<Try>, Tok>>::new().try_buffered_unordered(cap)))),
                    2 => Box::new(STbu(Box::pin(SimUp::<UpTryG<SimFut<TryRaw>, RawTok>>::new().try_buffered_unordered(cap)))),
                    _ => Box::new(STbu(Box::pin(SimUp::<UpTryG<NdFut<TryRaw>, RawTok>>::new().try_buffered_unordered(cap)))),
                },
                SubjectKind::TBO => {
                    macro_rules! tbo {
                        ($F:ty, $E:ty) => {{
                            let mut a = Box::pin(SimUp::<UpTryG<$F, $E>>::new().try_buffered_ordered(cap));
                            if let Some(p) = sp {
                                // SAFETY: only a counter is written; nothing is moved
                                unsafe { a.as_mut().get_unchecked_mut() }.__verif_set_position(p);
                            }
                            Box::new(STbo(a)) as Box<dyn Subject>
                        }};
                    }
                    match cfg.shape & 7 {
                        4 | 6 => tbo!(SimFut<TryZst>, Tok),
                        5 | 7 => tbo!(NdFut<TryZst>, Tok),
                        0 => tbo!(SimFut<Try>, Tok),
                        1 => tbo!(NdFut<Try>, Tok),
                        2 => tbo!(SimFut<TryRaw>, RawTok),
                        _ => tbo!(NdFut<TryRaw>, RawTok),
                    }
                }
                SubjectKind::FEC => {
                    if cfg.shape & 1 != 0 {
                        let f: fn(u32) -> NdFut<Unit> = |id| NdFut::new(id);
                        Box::new(SFec(Box::pin(SimUp::<UpIdx>::new().for_each_concurrent(cap, f))
                            as Pin<Box<dyn FusedFuture<Output = ()>>>))
                    } else {
                        let f: FecFn = |id| SimFut::new(id);
                        Box::new(SFec(Box::pin(SimUp::<UpIdx>::new().for_each_concurrent(cap, f))
                            as Pin<Box<dyn FusedFuture<Output = ()>>>))
                    }
                }
            }
        })
    })
}

#[allow(dead_code)]
pub fn touch() {
    with(|_| ());
}
