//! Simulated memory subsystem: a wrapper around the system allocator that
//!  * counts allocations made while control is inside the crate under test (C18),
//!  * keeps a registry of those blocks: layout check on release, double free, leak (C03/C06),
//!  * fills fresh crate memory with 0xA5 so that reading uninitialised memory gives
//!    deterministic garbage (C07), and poisons + quarantines released crate memory until the end
//!    of the run so that a use-after-free reads deterministic garbage and a second free is seen.
//!
//! Not used under Miri (Miri provides all of this itself).

use crate::flags::F;
use std::alloc::{GlobalAlloc, Layout, System};
use std::cell::{Cell, RefCell};
use std::collections::BTreeMap;

pub struct SimAlloc;

#[derive(Default)]
pub struct Registry {
    /// live blocks allocated by the crate: addr -> (size, align, serial)
    pub live: BTreeMap<usize, (usize, usize, u64)>,
    /// released crate blocks, kept allocated (poisoned) until end of run
    pub quarantine: BTreeMap<usize, (usize, usize)>,
    pub serial: u64,
    pub errors: Vec<String>,
}

thread_local! {
    static IN_HOOK: Cell<bool> = const { Cell::new(false) };
    static ENABLED: Cell<bool> = const { Cell::new(false) };
    static REG: RefCell<Option<Registry>> = const { RefCell::new(None) };
}

/// Enable tracking on this thread (worker threads only).
pub fn enable() {
    IN_HOOK.with(|h| h.set(true));
    REG.with(|r| {
        let mut r = r.borrow_mut();
        if r.is_none() {
            *r = Some(Registry::default());
        }
    });
    IN_HOOK.with(|h| h.set(false));
    ENABLED.with(|e| e.set(true));
}

fn tracking() -> bool {
    ENABLED.try_with(|e| e.get()).unwrap_or(false)
        && !IN_HOOK.with(|h| h.get())
        && F.try_with(|f| f.in_crate.get() > 0 && f.in_world.get() == 0)
            .unwrap_or(false)
}

fn with_reg<R>(f: impl FnOnce(&mut Registry) -> R) -> Option<R> {
    IN_HOOK.with(|h| h.set(true));
    let r = REG
        .try_with(|r| r.try_borrow_mut().ok().and_then(|mut r| r.as_mut().map(f)))
        .ok()
        .flatten();
    IN_HOOK.with(|h| h.set(false));
    r
}

unsafe impl GlobalAlloc for SimAlloc {
    unsafe fn alloc(&self, layout: Layout) -> *mut u8 {
        let p = System.alloc(layout);
        if !p.is_null() && tracking() {
            std::ptr::write_bytes(p, 0xA5, layout.size());
            F.with(|f| {
                f.allocs_in_crate.set(f.allocs_in_crate.get() + 1);
                f.bytes_in_crate
                    .set(f.bytes_in_crate.get() + layout.size() as u64);
            });
            with_reg(|r| {
                r.serial += 1;
                let s = r.serial;
                r.live.insert(p as usize, (layout.size(), layout.align(), s));
            });
        }
        p
    }

    unsafe fn dealloc(&self, p: *mut u8, layout: Layout) {
        let enabled = ENABLED.try_with(|e| e.get()).unwrap_or(false)
            && !IN_HOOK.try_with(|h| h.get()).unwrap_or(true);
        if enabled {
            // 0 = not ours, 1 = ours: quarantined, 2 = double free: swallow
            let verdict = with_reg(|r| {
                let a = p as usize;
                if let Some((size, align, _)) = r.live.remove(&a) {
                    if size != layout.size() || align != layout.align() {
                        r.errors.push(format!(
                            "layout-mismatch: allocated size={} align={}, released size={} align={}",
                            size,
                            align,
                            layout.size(),
                            layout.align()
                        ));
                    }
                    r.quarantine.insert(a, (size, align));
                    1
                } else if r.quarantine.contains_key(&a) {
                    r.errors.push(format!(
                        "double-free: block of size={} released twice",
                        layout.size()
                    ));
                    2
                } else {
                    0
                }
            })
            .unwrap_or(0);
            match verdict {
                1 => {
                    // poison, keep allocated until end of run
                    let (size, _) = with_reg(|r| r.quarantine[&(p as usize)]).unwrap();
                    std::ptr::write_bytes(p, 0xA5, size);
                    return;
                }
                2 => return,
                _ => {}
            }
        }
        System.dealloc(p, layout)
    }
}

pub struct EndReport {
    pub errors: Vec<String>,
    /// (size, align) of blocks still live, in allocation order
    pub leaked: Vec<(usize, usize)>,
}

/// End of run: report errors and leaks, really free the quarantine, forget leaks.
pub fn end_run(free_quarantine: bool) -> EndReport {
    let (errors, leaked, q) = with_reg(|r| {
        let errors = std::mem::take(&mut r.errors);
        let mut l: Vec<(u64, usize, usize)> =
            r.live.values().map(|&(s, a, n)| (n, s, a)).collect();
        l.sort();
        r.live.clear();
        let q = std::mem::take(&mut r.quarantine);
        (errors, l.into_iter().map(|(_, s, a)| (s, a)).collect(), q)
    })
    .unwrap_or_default();
    let mut errors = errors;
    if free_quarantine {
        for (a, (size, align)) in q {
            // a released block is poisoned with 0xA5 and kept until now: any other byte in it was
            // written through a dangling pointer
            let bytes = unsafe { std::slice::from_raw_parts(a as *const u8, size) };
            if let Some(off) = bytes.iter().position(|&b| b != 0xA5) {
                errors.push(format!(
                    "write-after-free: a released block of size={} was written at offset {}",
                    size, off
                ));
            }
            unsafe { System.dealloc(a as *mut u8, Layout::from_size_align(size, align).unwrap()) };
        }
    }
    EndReport { errors, leaked }
}

impl Default for EndReport {
    fn default() -> Self {
        EndReport {
            errors: vec![],
            leaked: vec![],
        }
    }
}

/// `Some(true)` if `addr` is the start of a crate block that is still allocated, `Some(false)` if
/// the registry is active on this thread and does not know it as live, `None` without a registry
/// (Miri mode).
pub fn is_live(addr: usize) -> Option<bool> {
    if !ENABLED.try_with(|e| e.get()).unwrap_or(false) {
        return None;
    }
    with_reg(|r| r.live.contains_key(&addr))
}

/// True if `addr` lies inside a released (quarantined) crate block.
pub fn in_quarantine(addr: usize) -> bool {
    with_reg(|r| {
        r.quarantine
            .range(..=addr)
            .next_back()
            .map(|(&b, &(s, _))| addr < b + s)
            .unwrap_or(false)
    })
    .unwrap_or(false)
}
