//! Which workloads and subjects stress which property, and how many runs per tier.

use crate::gen::{applies, Workload};
use crate::ops::{SubjectKind, ALL_SUBJECTS};
use crate::RunSpec;
use SubjectKind::*;
use Workload::*;

fn cross(subjects: &[SubjectKind], workloads: &[(Workload, usize)], out: &mut Vec<RunSpec>) {
    for &(wl, weight) in workloads {
        for &s in subjects {
            if applies(wl, s) {
                for _ in 0..weight {
                    out.push(RunSpec {
                        wl,
                        subject: s,
                        sweep: false,
                    });
                }
            }
        }
    }
}

pub fn plan(prop: &str, tier: &str) -> Vec<RunSpec> {
    let all = &ALL_SUBJECTS[..];
    let collections = &[FUB, FU, FOB, FO][..];
    let merges = &[MB, MU][..];
    let adapters = &[BU, BO, TBU, TBO, FEC][..];
    let joins = &[JA, TJA][..];
    let mut p = vec![];
    match prop {
        "C01" => cross(all, &[(Flood, 1), (Generic, 3), (TaskSwap, 3), (Budget, 2), (Groups, 2), (Starve, 1), (WakerLife, 1), (StaleBacklog, 1)], &mut p),
        "C02" => cross(collections, &[(Flood, 1), (Generic, 3), (Budget, 1), (Groups, 3), (Cap, 1), (Wrap, 1), (Oscillate, 1), (Conveyor, 1)], &mut p),
        "C03" => cross(&[FUB, FU, FOB, FO, MB, MU, BU, TBO, FEC, JA, TJA], &[(WakerLife, 4), (Generic, 2), (Groups, 2), (Cap, 1), (StaleBacklog, 1)], &mut p),
        "C04" => cross(&[FOB, FO, BO, TBO, JA, TJA], &[(Wrap, 4), (Generic, 2), (Stall, 1), (Budget, 1), (Groups, 1)], &mut p),
        "C05" => cross(all, &[(Flood, 1), (Generic, 3), (StaleBacklog, 2), (Budget, 1), (Groups, 1)], &mut p),
        "C06" => {
            cross(all, &[(Flood, 1), (Generic, 3), (WakerLife, 2), (AfterReady, 2), (Stall, 1), (Groups, 1)], &mut p);
            // crash-point sweep: every prefix of a base trace followed by cancellation
            let n = p.len();
            let every = if tier == "quick" { 6 } else { 3 };
            for i in (0..n).step_by(every) {
                p[i].sweep = true;
            }
        }
        "C07" => cross(joins, &[(Flood, 1), (AfterReady, 4), (Generic, 2), (Budget, 1), (Oscillate, 1)], &mut p),
        "C08" => cross(all, &[(Generic, 3), (Groups, 3), (Budget, 1), (Wrap, 1)], &mut p),
        "C09" => cross(adapters, &[(Flood, 1), (Generic, 4), (Budget, 1), (Starve, 1), (Stall, 1), (Oscillate, 1)], &mut p),
        "C10" => cross(adapters, &[(Flood, 1), (Generic, 4), (Cap, 2), (Stall, 1), (Budget, 1), (Oscillate, 1)], &mut p),
        "C11" => cross(merges, &[(Flood, 1), (Conveyor, 1), (Generic, 4), (Groups, 2), (Budget, 1), (Starve, 1), (Oscillate, 1)], &mut p),
        "C12" => cross(all, &[(Flood, 1), (Generic, 3), (StaleBacklog, 2), (Budget, 1), (Groups, 2)], &mut p),
        "C13" => cross(&[FUB, FU, FOB, FO, MB, MU, BU, BO, TBU, TBO, FEC], &[(Flood, 1), (Starve, 4), (Budget, 2), (Groups, 2), (Generic, 1), (Conveyor, 3), (StaleBacklog, 1)], &mut p),
        "C14" => cross(all, &[(Flood, 1), (StaleBacklog, 3), (Generic, 3), (Groups, 2), (Budget, 1), (TaskSwap, 1), (Cap, 1), (Stall, 1)], &mut p),
        "C15" => cross(&[FUB, FU, FOB, FO, MB, MU, BU, BO, TBU, TBO, FEC], &[(Cap, 4), (Generic, 2), (Wrap, 1), (Groups, 1)], &mut p),
        "C16" => cross(&[BO, TBO], &[(Flood, 1), (Stall, 4), (Generic, 3), (Budget, 1), (Wrap, 1)], &mut p),
        "C17" => cross(&[FUB, FU, FOB, FO, MB, MU, BU, BO, TBU, TBO], &[(Generic, 4), (Cap, 1), (Stall, 1), (Groups, 1)], &mut p),
        "C18" => cross(&[FUB, FU, FO, MB, MU, BU, TBU, FEC, JA, TJA], &[(Flood, 1), (Oscillate, 3), (Conveyor, 3), (Generic, 2), (WakerLife, 1), (Groups, 2), (Stall, 3), (Tide, 1)], &mut p),
        // everything: used for determinism proofs and smoke runs
        _ => cross(all, &[(Generic, 1), (Budget, 1), (Groups, 1), (Starve, 1), (Oscillate, 1), (Wrap, 1), (Cap, 1), (StaleBacklog, 1), (Stall, 1), (AfterReady, 1), (WakerLife, 1), (TaskSwap, 1), (Conveyor, 1), (Flood, 1), (Tide, 1)], &mut p),
    }
    p
}

pub fn runs(prop: &str, tier: &str) -> u64 {
    let quick = match prop {
        "C06" => 60_000,
        "C18" => 60_000,
        "C13" => 50_000,
        "C01" => 150_000,
        "C09" | "C11" => 200_000,
        _ => 300_000,
    };
    if tier == "quick" {
        quick
    } else {
        quick * 25
    }
}
