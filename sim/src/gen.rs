//! Swarm generation of `(Config, trace)` from one PRNG. Nothing here executes anything.

use crate::ops::*;
use crate::rng::Rng;
use crate::world::UpEntry;
use serde::{Deserialize, Serialize};

#[derive(Clone, Copy, Debug, PartialEq, Eq, Serialize, Deserialize, PartialOrd, Ord)]
pub enum Workload {
    /// random mix of everything the subject's class supports
    Generic,
    /// many simultaneously ready children (above the per-poll budget), heavy wake traffic
    Budget,
    /// populations crossing group boundaries, partial drains, group discard/rotation
    Groups,
    /// always-ready sources / forever self-waking futures around a victim
    Starve,
    /// long fill/drain/refill oscillation (allocation discipline)
    Oscillate,
    /// ordered queues started next to 0, the sign bit and usize::MAX; push_front heavy
    Wrap,
    /// capacities 0,1,2.. and refused pushes
    Cap,
    /// stale wake-ups en masse, then a freeze check
    StaleBacklog,
    /// ordered adapters with a stalled head of line
    Stall,
    /// joins with polls after Ready
    AfterReady,
    /// wakers outliving the subject, clone/drop churn
    WakerLife,
    /// the task waker changes between polls; wakes land between polls; tiny populations
    TaskSwap,
    /// the README pattern: a resident population, then one in / one out for many cycles
    Conveyor,
    /// very many children that are ready (or have ended) at once: hundreds to thousands of
    /// completions inside single polls, limits up to 600
    Flood,
    /// big unbounded populations (hundreds to tens of thousands) with the oldest leaving and new
    /// ones arriving for many times the population
    Tide,
}

pub const ALL_WORKLOADS: [Workload; 15] = [
    Workload::Generic,
    Workload::Budget,
    Workload::Groups,
    Workload::Starve,
    Workload::Oscillate,
    Workload::Wrap,
    Workload::Cap,
    Workload::StaleBacklog,
    Workload::Stall,
    Workload::AfterReady,
    Workload::WakerLife,
    Workload::TaskSwap,
    Workload::Conveyor,
    Workload::Flood,
    Workload::Tide,
];

const MSB: usize = !(usize::MAX >> 1);

fn start_positions() -> Vec<usize> {
    vec![
        0,
        1,
        2,
        MSB - 2,
        MSB - 1,
        MSB,
        MSB + 1,
        MSB + 2,
        usize::MAX - 2,
        usize::MAX - 1,
        usize::MAX,
        // narrower counters would wrap here
        (1 << 32) - 1,
        1 << 32,
        (1 << 31) - 1,
        (1 << 16) - 1,
        (1 << 8) - 1,
    ]
}

/// A start position next to 0, the sign bit or usize::MAX: exactly on the boundary, or up to 300
/// steps before/after it so that larger populations cross it too.
fn pick_start(r: &mut Rng) -> usize {
    let base = r.pick(&start_positions());
    if r.chance(1, 2) {
        base
    } else if r.chance(1, 2) {
        base.wrapping_sub(r.below(300) as usize)
    } else {
        base.wrapping_add(r.below(300) as usize)
    }
}

#[derive(Clone, Copy)]
struct BehMix {
    p_ready: u64,   // of 100
    p_fail: u64,    // of 100
    p_self1: u64,   // of 100: selfwake 1..2
    p_selfinf: u64, // of 100
    p_woc: u64,
    p_cross: u64,
    p_inf_src: u64,
    p_closed: u64,
    p_panic: u64,
}

const DEFAULT_MIX: BehMix = BehMix {
    p_ready: 35,
    p_fail: 0,
    p_self1: 15,
    p_selfinf: 4,
    p_woc: 15,
    p_cross: 5,
    p_inf_src: 4,
    p_closed: 35,
    p_panic: 0,
};

fn gen_beh(r: &mut Rng, m: &BehMix, src: bool) -> Beh {
    let selfwake = if r.chance(m.p_selfinf, 100) {
        255
    } else if r.chance(m.p_self1, 100) {
        r.range(1, 3) as u8
    } else {
        0
    };
    Beh {
        ready: r.chance(m.p_ready, 100),
        fail: r.chance(m.p_fail, 100),
        selfwake,
        wake_on_complete: r.chance(m.p_woc, 100),
        store: r.below(2) as u8,
        cross: if r.chance(m.p_cross, 100) {
            Some(r.below(8) as u8)
        } else {
            None
        },
        items: if !src {
            0
        } else if r.chance(m.p_inf_src, 100) {
            255
        } else {
            r.below(5) as u8
        },
        closed: src && r.chance(m.p_closed, 100),
        panics: !src && m.p_panic > 0 && r.chance(m.p_panic, 100),
    }
}

fn wake_how(r: &mut Rng) -> WakeHow {
    match r.below(3) {
        0 => WakeHow::ByRef,
        1 => WakeHow::ByValue,
        _ => WakeHow::CloneThenWake,
    }
}

#[derive(Clone, Copy, Default)]
struct Weights {
    push: u64,
    push_front: u64,
    try_push: u64,
    extend: u64,
    poll: u64,
    poll_many: u64,
    drive: u64,
    ready: u64,
    feed: u64,
    close: u64,
    wake: u64,
    deliver: u64,
    clonew: u64,
    dropw: u64,
    stale: u64,
    release: u64,
    relocate: u64,
    cancel: u64,
    after_ready: u64,
    freeze: u64,
    quiesce: u64,
    /// percentage of polls that carry a task waker never used before
    fresh_pct: u64,
}

fn class_weights(class: Class, ordered: bool) -> Weights {
    let mut w = Weights {
        poll: 20,
        poll_many: 6,
        drive: 6,
        wake: 10,
        deliver: 6,
        clonew: 4,
        dropw: 3,
        stale: 5,
        relocate: 2,
        cancel: 1,
        freeze: 2,
        quiesce: 1,
        fresh_pct: 25,
        ..Weights::default()
    };
    match class {
        Class::Collection => {
            w.push = 18;
            w.try_push = 5;
            w.ready = 16;
            if ordered {
                w.push_front = 6;
                w.extend = 2;
            }
        }
        Class::Merge => {
            w.push = 10;
            w.try_push = 3;
            w.feed = 14;
            w.close = 6;
        }
        Class::Adapter => {
            w.ready = 18;
            w.release = 10;
        }
        Class::Join => {
            w.ready = 20;
            w.after_ready = 3;
        }
    }
    w
}

fn pick_op(r: &mut Rng, w: &Weights, m: &BehMix, src: bool) -> Op {
    let table: [(u64, u8); 21] = [
        (w.push, 0),
        (w.push_front, 1),
        (w.try_push, 2),
        (w.extend, 3),
        (w.poll, 4),
        (w.poll_many, 5),
        (w.drive, 6),
        (w.ready, 7),
        (w.feed, 8),
        (w.close, 9),
        (w.wake, 10),
        (w.deliver, 11),
        (w.clonew, 12),
        (w.dropw, 13),
        (w.stale, 14),
        (w.release, 15),
        (w.relocate, 16),
        (w.cancel, 17),
        (w.after_ready, 18),
        (w.freeze, 19),
        (w.quiesce, 20),
    ];
    let total: u64 = table.iter().map(|t| t.0).sum();
    let mut x = r.below(total.max(1));
    let mut k = 4;
    for (wt, id) in table {
        if x < wt {
            k = id;
            break;
        }
        x -= wt;
    }
    let sel = if r.chance(1, 5) { 0x8000 + r.below(1 << 10) as u16 } else { r.below(1 << 12) as u16 };
    match k {
        0 => Op::Push {
            beh: gen_beh(r, m, src),
            how: PushHow::Back,
        },
        1 => Op::Push {
            beh: gen_beh(r, m, src),
            how: if r.chance(1, 4) { PushHow::TryFront } else { PushHow::Front },
        },
        2 => Op::Push {
            beh: gen_beh(r, m, src),
            how: PushHow::TryBack,
        },
        3 => {
            let n = if r.chance(1, 4) { r.range(30, 75) } else { r.range(1, 4) };
            Op::Extend {
                behs: (0..n).map(|_| gen_beh(r, m, src)).collect(),
            }
        }
        4 => Op::Poll { fresh: r.chance(w.fresh_pct, 100) },
        5 => Op::PollMany {
            max: r.range(2, 12) as u16,
            fresh: r.chance(w.fresh_pct, 100),
        },
        6 => Op::Drive { max: r.range(2, 16) as u16 },
        7 => Op::Ready { sel, delay: r.chance(1, 3) },
        8 => Op::Feed {
            sel,
            n: r.range(1, 4) as u8,
            delay: r.chance(1, 3),
        },
        9 => Op::Close { sel, delay: r.chance(1, 3) },
        10 => Op::Wake {
            sel,
            how: wake_how(r),
            times: if r.chance(1, 4) { r.range(2, 4) as u8 } else { 1 },
        },
        11 => Op::Deliver { sel },
        12 => Op::CloneW { sel },
        13 => Op::DropW { sel },
        14 => Op::Stale { sel, how: wake_how(r) },
        15 => Op::Release {
            n: r.range(1, 5) as u8,
            delay: r.chance(1, 4),
        },
        16 => Op::Relocate,
        17 => Op::Cancel,
        18 => Op::PollAfterReady,
        19 => {
            if r.chance(1, 3) {
                Op::FreezeFresh
            } else {
                Op::Freeze
            }
        }
        _ => Op::Quiesce,
    }
}

fn small_cap(r: &mut Rng) -> usize {
    let caps: [usize; 21] = [0, 1, 1, 2, 2, 3, 3, 4, 5, 8, 8, 16, 31, 32, 33, 64, 100, 200, 255, 300, 1000];
    r.pick(&caps)
}

fn gen_upstream(r: &mut Rng, m: &BehMix, is_try: bool, len: usize) -> Vec<UpEntry> {
    (0..len)
        .map(|_| {
            if is_try && r.chance(12, 100) {
                UpEntry::Err
            } else {
                UpEntry::Fut(gen_beh(r, m, false))
            }
        })
        .collect()
}

fn base_config(subject: SubjectKind, workload: Workload) -> Config {
    Config {
        subject,
        ctor: Ctor::New,
        cap: 4,
        initial: vec![],
        start_pos: None,
        upstream: vec![],
        up_released: 0,
        up_lo_slack: 0,
        up_hi_slack: Some(0),
        wakers_first: false,
        shape: 0,
        inexact_iter: false,
        iter_kind: 0,
        src_hints: false,
        src_promise: false,
        wake_in_drop: false,
        zst_children: None,
        workload: format!("{:?}", workload),
    }
}

/// Which subjects a workload applies to.
pub fn applies(workload: Workload, s: SubjectKind) -> bool {
    use SubjectKind::*;
    match workload {
        Workload::Generic | Workload::Budget | Workload::WakerLife | Workload::StaleBacklog | Workload::TaskSwap => true,
        Workload::Groups => matches!(s, FU | FO | MU),
        Workload::Starve => !matches!(s, JA | TJA),
        Workload::Oscillate => matches!(s, FUB | FU | FO | MB | MU | BU | TBU | FEC | JA | TJA),
        Workload::Wrap => matches!(s, FOB | FO | BO | TBO),
        Workload::Cap => matches!(s, FUB | FU | FOB | FO | MB | MU | BU | BO | TBU | TBO | FEC),
        Workload::Stall => matches!(s, BO | TBO | FOB | FO),
        Workload::AfterReady => matches!(s, JA | TJA),
        Workload::Conveyor => matches!(s, FUB | FU | FOB | FO | MB | MU),
        Workload::Flood => true,
        Workload::Tide => matches!(s, FU | FO | MU),
    }
}

pub fn generate(workload: Workload, subject: SubjectKind, seed: u64) -> (Config, Vec<Op>) {
    let mut r = Rng::new(seed);
    let r = &mut r;
    let class = subject.class();
    let src = class == Class::Merge;
    let mut cfg = base_config(subject, workload);
    let mut m = DEFAULT_MIX;
    if subject.is_try() {
        m.p_fail = 15;
    }
    // type shape of the children (drop glue or not), where the harness has the variants
    if r.chance(3, 10) {
        cfg.shape = r.range(1, 3) as u8;
    }
    if (class == Class::Collection || subject == SubjectKind::JA) && r.chance(1, 14) {
        // a future type larger than a page
        cfg.shape = 8;
    }
    if class == Class::Join && r.chance(1, 8) {
        // zero-sized outputs with a destructor (with or without drop glue on the future)
        cfg.shape = 4 | (r.below(2) as u8);
    }
    if (class == Class::Collection || (class == Class::Adapter && subject != SubjectKind::FEC)) && r.chance(1, 12) {
        // zero-sized outputs with a destructor: they carry no identity, the model attributes them
        cfg.shape = 4 | (r.below(2) as u8);
    }
    // children that panic in poll: only joins are specified for what happens afterwards (C07)
    if class == Class::Join && matches!(workload, Workload::AfterReady | Workload::Generic) && r.chance(1, 4) {
        m.p_panic = 12;
    }
    // swarm: randomly disable some fault kinds for this run
    let mut w = class_weights(class, subject.ordered());
    for f in [
        &mut w.wake,
        &mut w.deliver,
        &mut w.clonew,
        &mut w.dropw,
        &mut w.stale,
        &mut w.relocate,
        &mut w.cancel,
        &mut w.freeze,
    ] {
        if r.chance(1, 4) {
            *f = 0;
        }
    }
    if r.chance(1, 3) {
        m.p_selfinf = 0;
    }
    if r.chance(1, 3) {
        m.p_cross = 0;
    }
    cfg.wakers_first = r.chance(1, 2);
    cfg.inexact_iter = r.chance(1, 3);
    cfg.iter_kind = if r.chance(1, 4) { r.range(2, 4) as u8 } else { 0 };
    cfg.src_hints = r.chance(1, 2);
    cfg.src_promise = cfg.src_hints && r.chance(1, 3);
    cfg.wake_in_drop = r.chance(1, 6);
    if (workload == Workload::Cap && r.chance(1, 5)) || (workload == Workload::Generic && r.chance(1, 40)) {
        let n = r.pick(&[0usize, 1, 2, 5, 31, 32, 33, 61, 64, 70, 100, 130]);
        cfg.zst_children = Some((n as u16, r.below(n as u64 + 1) as u16));
    }
    cfg.cap = small_cap(r);
    if cfg.cap == 0 && !matches!(workload, Workload::Cap) {
        cfg.cap = 1 + r.below(4) as usize;
    }
    if subject.ordered() && r.chance(3, 10) {
        cfg.start_pos = Some(pick_start(r));
    }
    let mut n_ops = match r.below(10) {
        0..=5 => r.range(5, 30),
        6..=8 => r.range(30, 80),
        _ => r.range(80, 200),
    } as usize;
    // a thin tail of very long histories
    let long_tail = r.chance(1, 400);
    let mut trace: Vec<Op> = vec![];

    // construction
    match class {
        Class::Collection => {
            cfg.ctor = match r.below(4) {
                0 => Ctor::Collect,
                1 if !subject.bounded() => Ctor::WithCapacity,
                _ => Ctor::New,
            };
            if cfg.ctor == Ctor::Collect {
                let n = r.below(cfg.cap.min(40) as u64 + 1) as usize;
                cfg.initial = (0..n).map(|_| gen_beh(r, &m, false)).collect();
            }
        }
        Class::Merge => {
            if subject == SubjectKind::MB {
                cfg.ctor = Ctor::Collect;
                let n = r.below(cfg.cap.min(40) as u64 + 1) as usize;
                cfg.initial = (0..n).map(|_| gen_beh(r, &m, true)).collect();
            } else {
                cfg.ctor = if r.chance(1, 3) { Ctor::Collect } else { Ctor::New };
                if cfg.ctor == Ctor::Collect {
                    let n = r.below(70) as usize;
                    cfg.initial = (0..n).map(|_| gen_beh(r, &m, true)).collect();
                }
            }
        }
        Class::Adapter => {
            let len = match r.below(10) {
                0 => 0,
                1..=6 => r.range(1, 12),
                _ => r.range(12, 60),
            } as usize;
            cfg.upstream = gen_upstream(r, &m, subject.is_try(), len);
            cfg.up_released = if r.chance(1, 2) { len } else { r.below(len as u64 + 1) as usize };
            cfg.up_lo_slack = if r.chance(1, 2) { 0 } else { r.below(5) as usize };
            cfg.up_hi_slack = match r.below(8) {
                0 | 1 | 2 => Some(0),
                3 | 4 => Some(r.below(5) as usize),
                // loose but honest upper bounds next to usize::MAX
                5 => Some(usize::MAX - r.below(70) as usize),
                _ => None,
            };
            cfg.cap = cfg.cap.min(64);
        }
        Class::Join => {
            let n = match r.below(10) {
                0 => 0,
                1..=7 => r.range(1, 8),
                _ => r.range(8, 40),
            } as usize;
            cfg.initial = (0..n).map(|_| gen_beh(r, &m, false)).collect();
            cfg.cap = n;
        }
    }

    // workload specific shaping
    match workload {
        Workload::Generic => {}
        Workload::Budget => {
            m.p_ready = if r.chance(1, 2) { 85 } else { r.below(20) };
            if m.p_ready < 20 {
                m.p_selfinf = 0;
                m.p_self1 = r.pick(&[0u64, 10]);
            }
            let n = if r.chance(1, 8) { r.range(140, 320) } else { r.range(55, 140) } as usize;
            match class {
                Class::Collection | Class::Merge => {
                    cfg.cap = cfg.cap.max(n + r.below(8) as usize);
                    if subject == SubjectKind::MB || cfg.ctor == Ctor::Collect {
                        cfg.ctor = Ctor::Collect;
                        cfg.initial = (0..n).map(|_| gen_beh(r, &m, src)).collect();
                        if subject.bounded() && r.chance(1, 2) {
                            // leave no room: capacity == n
                        }
                    } else {
                        for _ in 0..n {
                            trace.push(Op::Push {
                                beh: gen_beh(r, &m, src),
                                how: PushHow::Back,
                            });
                        }
                    }
                }
                Class::Adapter => {
                    cfg.cap = r.range(62, 130) as usize;
                    cfg.upstream = gen_upstream(r, &m, subject.is_try(), n + 20);
                    cfg.up_released = cfg.upstream.len();
                }
                Class::Join => {
                    cfg.initial = (0..n).map(|_| gen_beh(r, &m, false)).collect();
                    cfg.cap = n;
                }
            }
            w.wake *= 2;
        }
        Workload::Groups => {
            cfg.ctor = if r.chance(1, 2) { Ctor::WithCapacity } else { Ctor::New };
            cfg.cap = r.range(1, 3) as usize;
            if subject == SubjectKind::MU {
                cfg.ctor = Ctor::New;
            }
            cfg.initial.clear();
            w.push *= 3;
            w.ready *= 2;
            w.poll_many *= 2;
            n_ops = r.range(40, 260) as usize;
            let mut pushed = 0usize;
            if cfg.ctor == Ctor::New {
                // default first group is 32 wide: start by filling past a boundary or two
                let n = r.pick(&[30u64, 33, 40, 64, 97, 100, 130, 130, 225, 230, 300, 500]) as usize;
                for _ in 0..n {
                    trace.push(Op::Push {
                        beh: gen_beh(r, &m, src),
                        how: PushHow::Back,
                    });
                }
                pushed = n;
            } else if r.chance(1, 2) {
                let n = r.range(3, 20) as usize;
                for _ in 0..n {
                    trace.push(Op::Push {
                        beh: gen_beh(r, &m, src),
                        how: PushHow::Back,
                    });
                }
                pushed = n;
            }
            if pushed > 0 && r.chance(2, 3) {
                // finish a whole group (the oldest ones, or the newest ones) while others stay,
                // polling now and then; afterwards wakes and a changed task waker
                trace.push(Op::Poll { fresh: false });
                let first_group = if cfg.ctor == Ctor::New { 32 } else { cfg.cap.max(1) };
                let k = if r.chance(1, 2) { first_group.min(pushed) } else { r.range(1, pushed as u64) as usize };
                let from_newest = r.chance(1, 3);
                for i in 0..k {
                    let sel = if from_newest { 0x8000 } else { 0 };
                    if src {
                        trace.push(Op::Close { sel, delay: r.chance(1, 6) });
                    } else {
                        trace.push(Op::Ready { sel, delay: r.chance(1, 6) });
                    }
                    if r.chance(1, 6) || i + 1 == k {
                        trace.push(Op::PollMany { max: r.range(1, 40) as u16, fresh: r.chance(1, 4) });
                    }
                }
                trace.push(Op::Poll { fresh: r.chance(1, 2) });
                for _ in 0..r.range(1, 4) {
                    let sel = r.below(64) as u16;
                    if src {
                        trace.push(Op::Feed { sel, n: 1, delay: false });
                    } else {
                        trace.push(Op::Wake { sel, how: WakeHow::ByRef, times: 1 });
                    }
                }
                n_ops = r.range(5, 80) as usize;
            }
        }
        Workload::Starve => {
            // a permanently busy population around pending victims
            m.p_selfinf = 60;
            m.p_inf_src = 70;
            m.p_ready = 10;
            m.p_closed = 5;
            let n = r.pick(&[3u64, 8, 31, 33, 40, 62, 66, 100]) as usize;
            match class {
                Class::Collection | Class::Merge => {
                    if subject.bounded() {
                        cfg.cap = n + 2;
                    }
                    if subject == SubjectKind::MB {
                        cfg.ctor = Ctor::Collect;
                        cfg.initial = (0..n).map(|_| gen_beh(r, &m, true)).collect();
                    } else {
                        cfg.ctor = Ctor::New;
                        cfg.initial.clear();
                        for _ in 0..n {
                            trace.push(Op::Push {
                                beh: gen_beh(r, &m, src),
                                how: PushHow::Back,
                            });
                        }
                    }
                }
                Class::Adapter => {
                    cfg.cap = (n + 2).min(64);
                    cfg.upstream = gen_upstream(r, &m, subject.is_try(), n + 10);
                    cfg.up_released = cfg.upstream.len();
                }
                Class::Join => {}
            }
            w = Weights {
                poll: 30,
                poll_many: 30,
                drive: 10,
                ready: 6,
                wake: 8,
                feed: 3,
                push: 2,
                ..Weights::default()
            };
            n_ops = r.range(60, 400) as usize;
            if matches!(class, Class::Collection | Class::Merge) && r.chance(1, 3) {
                // everybody permanently busy except one victim at a chosen place in the line
                let busy = r.pick(&[30usize, 60, 61, 61, 62, 122, 123, 123, 185]);
                let victim_at = match r.below(3) {
                    0 => busy,
                    1 => r.below(busy as u64 + 1) as usize,
                    _ => busy.min(61),
                };
                let busy_beh = Beh { selfwake: 255, items: 255, store: r.below(2) as u8, ..Beh::default() };
                let victim = Beh { items: 0, ..Beh::default() };
                let mut all: Vec<Beh> = vec![busy_beh; busy];
                all.insert(victim_at, victim);
                trace.clear();
                cfg.initial.clear();
                if subject.bounded() {
                    cfg.cap = all.len() + r.below(2) as usize;
                }
                if subject == SubjectKind::MB {
                    cfg.ctor = Ctor::Collect;
                    cfg.initial = all;
                } else {
                    cfg.ctor = Ctor::New;
                    for b in all {
                        trace.push(Op::Push { beh: b, how: PushHow::Back });
                    }
                }
                if subject.bounded() && cfg.ctor == Ctor::Collect {
                    cfg.cap = cfg.initial.len();
                }
                // wake the victim now and then; the executor keeps polling as long as it is woken
                for _ in 0..r.range(1, 3) {
                    trace.push(Op::Drive { max: r.range(150, 700) as u16 });
                    trace.push(Op::Wake { sel: victim_at as u16, how: WakeHow::ByRef, times: 1 });
                }
                trace.push(Op::Drive { max: r.range(150, 700) as u16 });
                n_ops = 0;
            }
        }
        Workload::Oscillate => {
            m.p_ready = 70;
            m.p_selfinf = 0;
            m.p_inf_src = 0;
            m.p_closed = 80;
            w.cancel = 0;
            w.freeze = 0;
            n_ops = r.range(200, 1500) as usize;
            match class {
                Class::Collection | Class::Merge => {
                    w.push *= 2;
                    w.poll_many *= 4;
                    w.clonew *= 2;
                    w.dropw *= 2;
                    if matches!(subject, SubjectKind::FU | SubjectKind::FO) && r.chance(3, 5) {
                        // many small groups: creation, discard and rotation happen all the time
                        cfg.ctor = Ctor::WithCapacity;
                        cfg.cap = r.range(1, 3) as usize;
                        cfg.initial.clear();
                        m.p_ready = r.pick(&[40u64, 60, 80]);
                    }
                    if subject == SubjectKind::MB {
                        cfg.cap = r.range(2, 40) as usize;
                        cfg.initial = (0..cfg.cap).map(|_| gen_beh(r, &m, true)).collect();
                    }
                }
                Class::Adapter => {
                    let len = r.range(100, 2000) as usize;
                    cfg.upstream = gen_upstream(r, &m, subject.is_try(), len);
                    cfg.up_released = len;
                    cfg.cap = r.range(1, 32) as usize;
                    w.poll_many *= 4;
                    w.drive *= 4;
                }
                Class::Join => {
                    let n = r.range(1, 300) as usize;
                    cfg.initial = (0..n).map(|_| gen_beh(r, &m, false)).collect();
                    cfg.cap = n;
                }
            }
        }
        Workload::Wrap => {
            cfg.start_pos = Some(pick_start(r));
            if class == Class::Collection {
                cfg.ctor = if subject.bounded() || r.chance(1, 2) { Ctor::New } else { Ctor::WithCapacity };
                cfg.initial.clear();
                cfg.cap = r.range(1, 12) as usize;
                w.push_front *= 4;
                w.ready *= 2;
            } else {
                cfg.cap = r.range(1, 8) as usize;
            }
        }
        Workload::Cap => {
            cfg.cap = r.pick(&[0usize, 0, 1, 1, 2, 3]);
            if class == Class::Collection || class == Class::Merge {
                w.try_push *= 4;
                w.push *= 2;
                if cfg.ctor == Ctor::Collect || subject == SubjectKind::MB {
                    let n = r.below(cfg.cap as u64 + 1) as usize;
                    cfg.initial = (0..n).map(|_| gen_beh(r, &m, src)).collect();
                }
            }
            if class == Class::Adapter && cfg.cap == 0 && subject != SubjectKind::FEC {
                // only for_each_concurrent documents a meaning for limit 0. The others are
                // constructed (C15), polled a few times and dropped: whatever they do with limit 0,
                // a sleeping adapter must not keep its task spinning (C14)
                n_ops = 0;
                if r.chance(2, 3) {
                    // upstream has nothing at hand
                    cfg.up_released = 0;
                }
                for _ in 0..r.range(1, 3) {
                    trace.push(Op::Poll { fresh: r.chance(1, 3) });
                }
                trace.push(if r.chance(1, 3) { Op::FreezeFresh } else { Op::Freeze });
            }
        }
        Workload::StaleBacklog => {
            m.p_woc = 60;
            m.p_ready = 60;
            w.stale *= 8;
            w.freeze *= 6;
            w.clonew *= 3;
            w.dropw = 0;
            cfg.cap = cfg.cap.max(r.pick(&[8usize, 64, 100, 200]));
            n_ops = r.range(40, 300) as usize;
            if r.chance(1, 2) && (class == Class::Collection || class == Class::Merge) && subject != SubjectKind::MB {
                // a backlog of queue entries for vacant slots: many children that wake themselves
                // in their last poll, all drained, then a few pending ones
                let n = r.pick(&[60u64, 100, 130, 200, 260]) as usize;
                cfg.ctor = Ctor::New;
                cfg.initial.clear();
                if subject.bounded() {
                    cfg.cap = n;
                }
                for _ in 0..n {
                    let mut b = gen_beh(r, &m, src);
                    b.ready = true;
                    b.wake_on_complete = true;
                    b.selfwake = 0;
                    b.items = 0;
                    b.closed = true;
                    trace.push(Op::Push { beh: b, how: PushHow::Back });
                }
                trace.push(Op::PollMany { max: (n + 8) as u16, fresh: false });
                for _ in 0..r.range(1, 3) {
                    let mut b = gen_beh(r, &m, src);
                    b.ready = false;
                    b.selfwake = 0;
                    b.items = 0;
                    b.closed = false;
                    trace.push(Op::Push { beh: b, how: PushHow::Back });
                }
                trace.push(if r.chance(1, 3) { Op::FreezeFresh } else { Op::Freeze });
                n_ops = r.range(0, 30) as usize;
            }
        }
        Workload::Stall => {
            // head of line never completes on its own; everything behind it is ready at once
            m.p_ready = 100;
            m.p_selfinf = 0;
            match class {
                Class::Adapter => {
                    let len = if r.chance(1, 8) { r.range(1000, 10000) } else { r.range(5, 120) } as usize;
                    cfg.upstream = gen_upstream(r, &m, subject.is_try(), len);
                    if let Some(UpEntry::Fut(b)) = cfg.upstream.first_mut() {
                        b.ready = false;
                        b.fail = false;
                    }
                    cfg.up_released = len;
                    cfg.cap = r.range(1, 9) as usize;
                }
                _ => {
                    cfg.ctor = Ctor::New;
                    cfg.initial.clear();
                    cfg.cap = r.range(2, 20) as usize;
                    let mut b = gen_beh(r, &m, false);
                    b.ready = false;
                    trace.push(Op::Push { beh: b, how: PushHow::Back });
                }
            }
            w = Weights {
                poll: 30,
                poll_many: 10,
                drive: 10,
                push: if class == Class::Collection { 20 } else { 0 },
                wake: 4,
                stale: 2,
                freeze: 3,
                ..Weights::default()
            };
            n_ops = r.range(10, 80) as usize;
            if subject == SubjectKind::FO && r.chance(1, 3) {
                // outputs pile up behind the stalled head while many small batches keep arriving
                w.extend = 30;
                w.push = 4;
                n_ops = r.range(80, 400) as usize;
            }
            if subject == SubjectKind::FO && r.chance(1, 6) {
                // bursts: k outputs pile up behind the head, the head finishes, everything drains;
                // again and again at the same peak
                cfg.inexact_iter = false;
                let k = r.pick(&[33usize, 34, 40, 64, 65, 70, 130]);
                let cycles = r.range(30, 70) as usize;
                let ready = Beh { ready: true, ..Beh::default() };
                for _ in 0..cycles {
                    // (the first head is the one pushed above)
                    trace.push(Op::PushMany { beh: ready, n: k as u32 });
                    trace.push(Op::Drive { max: 4 });
                    trace.push(Op::FinishOldest { n: 1 });
                    trace.push(Op::PollMany { max: (k + 3) as u16, fresh: false });
                    trace.push(Op::Push { beh: Beh::default(), how: PushHow::Back });
                }
                trace.push(Op::Quiesce);
                return (cfg, trace);
            }
            if subject == SubjectKind::FO && r.chance(1, 4) {
                // ladder: strictly alternate "a small batch arrives" / "it completes and is parked
                // behind the stalled head", so that every container that holds parked outputs is
                // always exactly full when the next batch arrives
                cfg.inexact_iter = false;
                let k = r.range(1, 3) as usize;
                let cycles = r.range(60, 300) as usize;
                let ready = Beh { ready: true, ..Beh::default() };
                trace.push(Op::Poll { fresh: false });
                for _ in 0..cycles {
                    trace.push(Op::Extend { behs: vec![ready; k] });
                    trace.push(Op::Drive { max: 4 });
                }
                if r.chance(1, 2) {
                    trace.push(Op::Ready { sel: 0, delay: false });
                    trace.push(Op::Drive { max: (cycles * k + 8) as u16 });
                }
                trace.push(Op::Quiesce);
                return (cfg, trace);
            }
        }
        Workload::AfterReady => {
            m.p_ready = 50;
            w.after_ready *= 8;
            w.ready *= 2;
            w.drive *= 2;
        }
        Workload::Flood => {
            let n = match r.below(100) {
                0..=69 => r.pick(&[61usize, 62, 64, 122, 128, 200, 256, 257, 300]),
                70..=93 => r.pick(&[512usize, 600, 1000, 1023, 1024, 1025]),
                _ => r.pick(&[2048usize, 3000]),
            };
            let n = if r.chance(1, 4) { n + r.below(40) as usize } else { n };
            let all = Beh { ready: true, closed: true, items: if r.chance(1, 2) { 0 } else { 1 }, wake_on_complete: r.chance(1, 8), ..Beh::default() };
            // a few stragglers that finish later
            let stragglers = if r.chance(1, 2) { 0 } else { r.range(1, 3) as usize };
            trace.clear();
            cfg.start_pos = None;
            match class {
                Class::Collection | Class::Merge => {
                    cfg.initial.clear();
                    let mut behs: Vec<Beh> = vec![all; n];
                    for _ in 0..stragglers {
                        let at = r.below(behs.len() as u64 + 1) as usize;
                        behs.insert(at, Beh { ready: false, closed: false, items: 0, ..Beh::default() });
                    }
                    if subject == SubjectKind::MB || r.chance(1, 2) {
                        cfg.ctor = Ctor::Collect;
                        cfg.initial = behs;
                        cfg.cap = cfg.initial.len();
                    } else {
                        cfg.ctor = if subject.bounded() || r.chance(1, 2) { Ctor::New } else { Ctor::WithCapacity };
                        cfg.cap = if subject.bounded() { behs.len() + r.below(3) as usize } else { r.pick(&[1usize, 2, 32, 64]) };
                        for b in behs {
                            trace.push(Op::Push { beh: b, how: PushHow::Back });
                        }
                    }
                }
                Class::Adapter => {
                    cfg.cap = r.pick(&[1usize, 2, 4, 61, 62, 128, 256, 257, 300, 600]);
                    if r.chance(1, 10) {
                        // a very wide buffer that has to be filled in one go with futures that stay
                        // pending
                        cfg.cap = r.pick(&[513usize, 1000, 4097, 5000, 9000]);
                        let n = cfg.cap + r.range(1, 300) as usize;
                        cfg.upstream = (0..n).map(|_| UpEntry::Fut(Beh::default())).collect();
                        cfg.up_released = n;
                        trace.push(Op::Poll { fresh: false });
                        trace.push(Op::Ready { sel: 0, delay: false });
                        trace.push(Op::Drive { max: 8 });
                        trace.push(Op::Ready { sel: 0x8000, delay: false });
                        trace.push(Op::Drive { max: 8 });
                        trace.push(Op::Freeze);
                        return (cfg, trace);
                    }
                    // mostly ready futures, or (a third of the time) futures that stay pending so
                    // that a wide buffer has to be filled in one go
                    let ready = !r.chance(1, 3);
                    let mut up: Vec<UpEntry> = (0..n).map(|_| UpEntry::Fut(Beh { ready, ..Beh::default() })).collect();
                    for _ in 0..stragglers {
                        let at = r.below(up.len() as u64 + 1) as usize;
                        up.insert(at, UpEntry::Fut(Beh::default()));
                    }
                    cfg.upstream = up;
                    cfg.up_released = cfg.upstream.len();
                    if r.chance(1, 3) {
                        // a wide buffer over an upstream that goes pending almost at once: many free
                        // slots and nothing to do
                        cfg.up_released = r.below(4) as usize;
                        for e in cfg.upstream.iter_mut() {
                            if let UpEntry::Fut(b) = e {
                                b.ready = false;
                            }
                        }
                        trace.push(Op::Poll { fresh: false });
                        trace.push(if r.chance(1, 2) { Op::FreezeFresh } else { Op::Freeze });
                        trace.push(Op::Release { n: 200, delay: false });
                        trace.push(Op::Drive { max: 20 });
                        trace.push(Op::Freeze);
                        trace.push(Op::Quiesce);
                        return (cfg, trace);
                    }
                }
                Class::Join => {
                    let mut behs: Vec<Beh> = vec![all; n.min(1100)];
                    for _ in 0..stragglers {
                        let at = r.below(behs.len() as u64 + 1) as usize;
                        behs.insert(at, Beh::default());
                    }
                    cfg.initial = behs;
                    cfg.cap = cfg.initial.len();
                }
            }
            trace.push(Op::Poll { fresh: false });
            trace.push(Op::Drive { max: (n as u16).saturating_add(40) });
            for _ in 0..stragglers {
                if class == Class::Merge {
                    trace.push(Op::Close { sel: 0, delay: false });
                } else {
                    trace.push(Op::Ready { sel: 0, delay: false });
                }
                trace.push(Op::Drive { max: 8 });
            }
            trace.push(Op::Quiesce);
            return (cfg, trace);
        }
        Workload::Tide => {
            // population p; waves in which the oldest w leave and w new ones arrive, for a total of
            // several times p: whatever the growth policy, the allocations must stay logarithmic
            let (p, churn) = match r.below(100) {
                0..=69 => {
                    let p = r.range(230, 600) as usize;
                    (p, p * r.range(20, 40) as usize)
                }
                70..=91 => {
                    let p = r.range(600, 2500) as usize;
                    (p, p * 12)
                }
                92..=98 => {
                    let p = r.range(8200, 12500) as usize;
                    (p, p * 14)
                }
                _ => {
                    let p = r.range(16500, 30000) as usize;
                    (p, p * 8)
                }
            };
            cfg.initial.clear();
            cfg.start_pos = None;
            cfg.shape &= 3;
            cfg.wake_in_drop = false;
            if subject != SubjectKind::MU && r.chance(1, 4) {
                cfg.ctor = Ctor::WithCapacity;
                cfg.cap = r.pick(&[1usize, 2, 64, 100]);
            } else {
                cfg.ctor = Ctor::New;
            }
            let pending = Beh::default();
            trace.clear();
            trace.push(Op::PushMany { beh: pending, n: p as u32 });
            trace.push(Op::Poll { fresh: false });
            let mut done = 0usize;
            while done < churn {
                let w = (p / r.range(2, 6) as usize).max(1);
                trace.push(Op::FinishOldest { n: w as u32 });
                trace.push(Op::PollMany { max: (w + 2).min(65000) as u16, fresh: false });
                trace.push(Op::PushMany { beh: pending, n: w as u32 });
                trace.push(Op::Poll { fresh: false });
                done += w;
            }
            trace.push(Op::Quiesce);
            return (cfg, trace);
        }
        Workload::Conveyor => {
            // resident population of pending futures, part of it drained, then one-in/one-out
            let k = r.pick(&[2usize, 3, 5, 6, 33, 40, 65, 97, 100]);
            // how many of the oldest residents leave before the conveyor starts: none, exactly the
            // first group, or any number
            let drain = match r.below(4) {
                0 => 0,
                1 | 2 => 32.min(k - 1),
                _ => r.below(k as u64) as usize,
            };
            let residents_leave = r.chance(1, 2);
            cfg.initial.clear();
            cfg.start_pos = None;
            if subject.bounded() {
                cfg.ctor = Ctor::New;
                cfg.cap = k + 2 + r.below(3) as usize;
            } else if r.chance(1, 2) {
                cfg.ctor = Ctor::WithCapacity;
                cfg.cap = r.range(1, 3) as usize;
            } else {
                cfg.ctor = Ctor::New;
            }
            let pending = Beh { store: r.below(2) as u8, ..Beh::default() };
            // finishing a child: a future becomes ready, a source is closed
            let finish = |sel: u16, delay: bool| if src { Op::Close { sel, delay } } else { Op::Ready { sel, delay } };
            if subject == SubjectKind::MB {
                cfg.ctor = Ctor::Collect;
                cfg.initial = vec![pending; k + 2];
                cfg.cap = k + 2;
                // two of the initial ones make room for the travellers
                trace.push(Op::Poll { fresh: false });
                trace.push(finish(0x8000, false));
                trace.push(finish(0x8000, false));
                trace.push(Op::PollMany { max: 4, fresh: false });
            } else {
                for _ in 0..k {
                    trace.push(Op::Push { beh: pending, how: PushHow::Back });
                }
            }
            trace.push(Op::Poll { fresh: false });
            for _ in 0..drain {
                // always the oldest resident
                trace.push(finish(0, false));
            }
            if drain > 0 {
                trace.push(Op::PollMany { max: (drain + 2) as u16, fresh: false });
            }
            let resident = (k - drain) as u16;
            if r.chance(1, 3) {
                // work-queue flavour: travellers are ready when pushed, one poll per push; some
                // residents are woken at the start and must get their turn while this goes on
                let ready = Beh { ready: true, closed: true, items: if src { 1 } else { 0 }, ..Beh::default() };
                for i in 0..r.range(1, 3) {
                    trace.push(Op::Wake { sel: i as u16 * 7, how: WakeHow::ByRef, times: 1 });
                }
                let cycles = r.range(60, 500);
                for c in 0..cycles {
                    trace.push(Op::Push { beh: ready, how: PushHow::Back });
                    trace.push(Op::Poll { fresh: false });
                    if c % 97 == 96 {
                        trace.push(Op::Wake { sel: (c / 7) as u16, how: WakeHow::ByRef, times: 1 });
                    }
                }
                trace.push(Op::Quiesce);
                return (cfg, trace);
            }
            let mut resident = resident;
            if resident > 0 && r.chance(1, 2) {
                // the newest resident leaves as well (the largest group then holds travellers only)
                trace.push(finish(resident - 1, false));
                trace.push(Op::PollMany { max: 3, fresh: false });
                resident -= 1;
            }
            if resident > 0 && r.chance(1, 2) {
                // the newest resident is the first traveller (it sits in the newest group)
                resident -= 1;
            } else {
                // the first traveller
                trace.push(Op::Push { beh: pending, how: PushHow::Back });
            }
            let cycles = r.range(20, 300);
            for _ in 0..cycles {
                if residents_leave && resident > 0 && r.chance(1, 12) {
                    // a resident leaves at some point
                    trace.push(finish(r.below(resident as u64) as u16, false));
                    resident -= 1;
                }
                trace.push(Op::Push { beh: pending, how: PushHow::Back });
                // non-ready live futures in id order: residents, previous traveller, new traveller
                trace.push(finish(resident, r.chance(1, 8)));
                if r.chance(1, 8) {
                    trace.push(Op::Deliver { sel: 0 });
                }
                trace.push(Op::PollMany { max: 3, fresh: r.chance(1, 10) });
            }
            n_ops = 0;
        }
        Workload::TaskSwap => {
            w.fresh_pct = 70;
            w.poll *= 2;
            w.wake *= 3;
            w.ready *= 2;
            w.deliver *= 2;
            w.cancel = 0;
            m.p_ready = 15;
            match class {
                Class::Collection | Class::Merge => {
                    if !subject.bounded() {
                        cfg.ctor = if subject == SubjectKind::MU { Ctor::New } else { Ctor::WithCapacity };
                        cfg.cap = r.range(1, 2) as usize;
                        cfg.initial.clear();
                    } else if subject != SubjectKind::MB {
                        cfg.ctor = Ctor::New;
                        cfg.initial.clear();
                        cfg.cap = r.range(1, 6) as usize;
                    }
                    for _ in 0..r.range(1, 5) {
                        trace.push(Op::Push { beh: gen_beh(r, &m, src), how: PushHow::Back });
                    }
                }
                Class::Adapter => {
                    cfg.cap = r.range(1, 5) as usize;
                }
                Class::Join => {
                    let n = r.range(1, 5) as usize;
                    cfg.initial = (0..n).map(|_| gen_beh(r, &m, false)).collect();
                    cfg.cap = n;
                }
            }
            n_ops = r.range(8, 60) as usize;
        }
        Workload::WakerLife => {
            w.clonew *= 6;
            w.dropw *= 4;
            w.stale *= 4;
            w.cancel *= 6;
            w.wake *= 2;
            cfg.cap = r.pick(&[0usize, 1, 2, 3, 5, 8, 17, 64, 200]);
            if cfg.cap == 0 && class != Class::Collection {
                cfg.cap = 1;
            }
            if cfg.cap == 0 && subject.ordered() {
                cfg.cap = 1;
            }
        }
    }

    if class == Class::Join {
        cfg.ctor = Ctor::New;
    }
    if subject == SubjectKind::MB {
        cfg.ctor = Ctor::Collect;
    }
    if cfg.ctor == Ctor::Collect && subject.bounded() {
        // the capacity of a collected bounded subject is its initial population
        cfg.cap = cfg.initial.len();
    }

    if long_tail && n_ops > 0 {
        n_ops *= 25;
        w.cancel = 0;
    }
    let mut cancelled = false;
    for _ in 0..n_ops {
        let op = pick_op(r, &w, &m, src);
        if op == Op::Cancel {
            if cancelled {
                continue;
            }
            cancelled = true;
            // after the owner is gone only waker traffic makes sense
            w = Weights {
                stale: 10,
                clonew: 4,
                dropw: 4,
                deliver: 3,
                fresh_pct: 0,
                ..Weights::default()
            };
        }
        trace.push(op);
    }
    // most runs end with a quiesce so that the liveness oracles get their turn
    let undefined_limit = class == Class::Adapter && cfg.cap == 0 && subject != SubjectKind::FEC;
    if !cancelled && !undefined_limit && r.chance(3, 4) {
        if workload == Workload::StaleBacklog || r.chance(1, 6) {
            trace.push(if r.chance(1, 3) { Op::FreezeFresh } else { Op::Freeze });
        }
        trace.push(Op::Quiesce);
        if class == Class::Join && r.chance(1, 2) {
            trace.push(Op::PollAfterReady);
        }
    }
    (cfg, trace)
}
