//! The interpreter: executes one `(Config, trace)` against the real crate, next to the reference
//! model, and evaluates every oracle after every step.

use crate::children::{invoke_ref, invoke_val, ChildPanic, WorkCapExceeded};
use crate::flags::{self, F};
use crate::ops::*;
use crate::probes::{self, AbortRun};
use crate::subjects::{self, Obs, PollOut, PushOut, Subject};
use crate::world::*;
use std::collections::VecDeque;
use std::panic::{catch_unwind, AssertUnwindSafe};
use std::task::{Context, Waker};

const UP_TAG: u32 = u32::MAX - 1;
const HARD_WORK_CAP: u64 = 200_000;
const POOL_LIMIT: usize = 320;

#[derive(Clone, Debug, Default)]
pub struct RunResult {
    pub violations: Vec<Violation>,
    pub hash: u64,
    pub steps: u64,
    pub faults: [u64; NFAULT],
    pub hits: [u64; 9],
    pub waker_ops: [u64; 4],
    pub polls: u64,
    pub child_polls: u64,
    pub nontrivial: bool,
    pub layouts: Vec<u64>,
    pub max_groups: usize,
    pub aborted: Option<String>,
    pub allocs_after_ctor: u64,
    pub peak_held: usize,
    pub blocks: usize,
    pub freeze_checks: u64,
    pub freeze_skipped: u64,
    pub quiesces: u64,
    pub stale_task_wakes: u64,
    pub ctor_panicked: bool,
    pub polls_with_held: u64,
    pub items: u64,
    pub max_wait: u64,
    pub max_work: u64,
    /// 0-based trace indices of pushes that were refused (try_push -> Err, push -> panic)
    pub refused_ops: Vec<usize>,
}

#[derive(PartialEq, Eq, Clone, Copy, Debug)]
enum Last {
    None,
    Pending,
    Item,
    End,
}

struct Runner<'a> {
    cfg: &'a Config,
    subj: Option<Box<dyn Subject>>,
    class: Class,
    /// held children in queue order (collections: deque order; adapters: pull order; joins: input order)
    queue: VecDeque<u32>,
    /// merges: held sources
    sources: std::collections::BTreeSet<u32>,
    /// effective capacity of bounded subjects
    capn: usize,
    done: bool,
    next_task: usize,
    last: Last,
    allocs_ctor: u64,
    res: RunResult,
    dead: bool,
    /// a scripted child panicked in its poll and the unwind went through the subject: from here on
    /// only the memory-safety oracles stay on (what a collection does after that is unspecified)
    relaxed: bool,
    budget_hits_seen: u64,
    err_toks_seen: u64,
    vacant_pops_seen: u64,
}

/// Relative selector: `sel < 0x8000` counts from the oldest candidate, `sel >= 0x8000` from the
/// newest (both modulo the number of candidates).
fn pick(sel: u16, len: usize) -> usize {
    if sel < 0x8000 {
        sel as usize % len
    } else {
        len - 1 - ((sel - 0x8000) as usize % len)
    }
}

fn held_now() -> usize {
    with(|w| w.held_count())
}

impl<'a> Runner<'a> {
    fn kind(&self) -> SubjectKind {
        self.cfg.subject
    }

    fn violate(&self, p: &str, o: &str, d: String) {
        with(|w| w.violate(p, o, d));
    }

    /// Observers under catch_unwind: a panicking size_hint/len is a finding, not a harness crash.
    fn safe_obs(&self) -> Option<Obs> {
        let s = self.subj.as_ref()?;
        F.with(|f| f.quiet_panic.set(true));
        let o = catch_unwind(AssertUnwindSafe(|| s.obs()));
        F.with(|f| f.quiet_panic.set(false));
        o.ok()
    }

    fn groups(&self) -> usize {
        self.safe_obs().and_then(|o| o.layout.map(|l| l.1.len())).unwrap_or(1)
    }

    // ---------------------------------------------------------------------------------------
    fn handle_panic(&mut self, payload: Box<dyn std::any::Any + Send>, ctx: &str) {
        F.with(|f| {
            f.in_subject_poll.set(false);
            f.in_bracket.set(false);
            f.in_crate.set(0);
            f.quiet_panic.set(false);
        });
        let why;
        if payload.downcast_ref::<WorkCapExceeded>().is_some() {
            self.violate(
                "C13",
                "unbounded-work-in-one-poll",
                format!(
                    "{}: more than {} child polls inside one call; it does not return",
                    ctx, HARD_WORK_CAP
                ),
            );
            why = "work cap".to_string();
        } else if let Some(a) = payload.downcast_ref::<AbortRun>() {
            why = format!("probe: {}", a.0);
        } else {
            let msg = if let Some(s) = payload.downcast_ref::<&str>() {
                s.to_string()
            } else if let Some(s) = payload.downcast_ref::<String>() {
                s.clone()
            } else {
                "<non-string panic>".to_string()
            };
            let prop = match self.class {
                Class::Collection => "C02",
                Class::Merge => "C11",
                Class::Adapter => "C10",
                Class::Join => "C07",
            };
            self.violate(prop, "unexpected-panic", format!("{}: panicked: {}", ctx, msg));
            why = format!("panic: {}", msg);
        }
        self.abort(why);
    }

    /// Fatal: stop interpreting, leak everything that might touch corrupted state.
    fn abort(&mut self, why: String) {
        self.collect_probe_errors();
        F.with(|f| f.aborting.set(true));
        self.res.aborted = Some(why);
        self.dead = true;
        if let Some(s) = self.subj.take() {
            std::mem::forget(s);
        }
        with(|w| {
            for c in w.children.iter_mut() {
                if let Some(wk) = c.stored.take() {
                    std::mem::forget(wk);
                }
            }
            for h in w.wakers.drain(..) {
                std::mem::forget(h.waker);
            }
            for h in w.owed.drain(..) {
                std::mem::forget(h.waker);
            }
            for t in w.trash.drain(..) {
                std::mem::forget(t);
            }
            if let Some(wk) = w.up.stored.take() {
                std::mem::forget(wk);
            }
        });
    }

    fn collect_probe_errors(&mut self) {
        for (c, d) in probes::take_errors() {
            self.violate("C03", c, d);
        }
    }

    // ---------------------------------------------------------------------------------------
    fn poll_once(&mut self, fresh: bool) -> Last {
        if self.dead || self.subj.is_none() {
            return Last::None;
        }
        if self.done && matches!(self.class, Class::Join) {
            return Last::None;
        }
        if self.done && self.kind() == SubjectKind::FEC {
            return Last::None;
        }
        if fresh || self.next_task == 0 {
            self.next_task += 1;
            if fresh {
                with(|w| w.faults[FA_FRESH] += 1);
            }
        }
        let id = self.next_task;
        let held_before = held_now();
        with(|w| {
            w.poll_no += 1;
            w.child_polls_call = 0;
            w.completions_call = 0;
            w.ended_call = 0;
            w.pulled_call = 0;
            w.completed_ids_call.clear();
            w.pulled_ids_call.clear();
            w.work_cap = HARD_WORK_CAP;
            w.up.polled_this_call = false;
            w.up.pending_this_call = false;
            let pn = w.poll_no;
            w.log(0x30, pn);
        });
        F.with(|f| {
            f.cur_task.set(id);
            f.task_woken.set(false);
            f.task_wakes_in_poll.set(0);
            f.in_subject_poll.set(true);
        });
        let waker = flags::task_waker(id);
        let mut subj = self.subj.take().unwrap();
        let allocs_before = F.with(|f| f.allocs_in_crate.get());
        let r = catch_unwind(AssertUnwindSafe(|| {
            let mut cx = Context::from_waker(&waker);
            flags::in_crate(|| subj.poll(&mut cx))
        }));
        F.with(|f| f.in_subject_poll.set(false));
        if r.is_err() {
            // the panic machinery allocates its payload; that is not the crate's doing
            F.with(|f| f.allocs_in_crate.set(allocs_before));
        }
        self.res.polls += 1;
        if held_before > 0 {
            self.res.polls_with_held += 1;
        }
        match r {
            Err(p) if p.downcast_ref::<ChildPanic>().is_some() => {
                // the caller caught a child's panic and keeps the combinator: legal, safe code
                F.with(|f| {
                    f.in_crate.set(0);
                    f.quiet_panic.set(false);
                });
                self.relaxed = true;
                self.subj = Some(subj);
                drop(waker);
                with(|w| w.log(0x38, 0));
                self.collect_probe_errors();
                self.last = Last::None;
                Last::None
            }
            Err(p) => {
                std::mem::forget(subj);
                std::mem::forget(waker);
                self.handle_panic(p, "poll");
                Last::None
            }
            Ok(out) => {
                self.subj = Some(subj);
                drop(waker);
                let l = self.after_poll(out);
                self.last = l;
                l
            }
        }
    }

    /// The finished, not yet yielded child an identity-less (zero-sized) output stands for: the head
    /// of the queue for ordered subjects, the oldest finished one otherwise. Failed try-children are
    /// not candidates (their output is an identified error).
    fn resolve_anon(&self, ordered: bool) -> Option<u32> {
        with(|w| {
            let done = |c: u32| {
                let ch = &w.children[c as usize];
                ch.completed_at.is_some() && !ch.yielded && !ch.panicked && !(ch.beh.fail && self.kind().is_try())
            };
            if ordered {
                self.queue.front().copied().filter(|&c| done(c))
            } else {
                self.queue.iter().copied().find(|&c| done(c))
            }
        })
    }

    fn take_tok(&mut self, t: Tok, prop: &str, ctx: &str) -> Option<(u32, u32, u32)> {
        let r = with(|w| w.check_tok(&t, prop, ctx));
        drop(t);
        r
    }

    fn after_poll(&mut self, out: PollOut) -> Last {
        let kind = self.kind();
        let ctx = kind.name();
        let poll_no = with(|w| w.poll_no);
        let task_woken = F.with(|f| f.task_woken.get());
        let last;
        // ---- result against the model ------------------------------------------------------
        match self.class {
            Class::Collection => match out {
                PollOut::Item(t) => {
                    last = Last::Item;
                    self.res.items += 1;
                    if let Some((child, _, k)) = self.take_tok(t, "C02", ctx) {
                        let (child, k) = if k == K_ANON {
                            // a zero-sized output: it stands for the finished child the model expects
                            match self.resolve_anon(kind.ordered()) {
                                Some(c) => (c, K_OK),
                                None if kind.ordered() => (self.resolve_anon(false).unwrap_or(u32::MAX), K_OK),
                                None => (u32::MAX, K_OK),
                            }
                        } else {
                            (child, k)
                        };
                        with(|w| w.log(0x31, child as u64));
                        let pos = self.queue.iter().position(|&c| c == child);
                        let completed =
                            with(|w| (child as usize) < w.children.len() && w.children[child as usize].completed_at.is_some());
                        if pos.is_none() || !completed || k != K_OK {
                            self.violate(
                                "C02",
                                "yielded-not-held",
                                format!("{}: yielded an output of child {} which is not a held, finished future", ctx, child),
                            );
                        } else {
                            let pos = pos.unwrap();
                            if kind.ordered() && pos != 0 {
                                self.violate(
                                    "C04",
                                    "out-of-order",
                                    format!(
                                        "{}: yielded child {} but child {} is at the head of the queue",
                                        ctx, child, self.queue[0]
                                    ),
                                );
                            }
                            self.queue.remove(pos);
                            with(|w| w.mark_yielded(child));
                        }
                    }
                }
                PollOut::End => {
                    last = Last::End;
                    with(|w| w.log(0x32, 0));
                    if !self.queue.is_empty() {
                        self.violate(
                            "C02",
                            "none-while-holding",
                            format!("{}: returned None while {} futures are held", ctx, self.queue.len()),
                        );
                    }
                }
                PollOut::Pending => {
                    last = Last::Pending;
                    with(|w| w.log(0x33, 0));
                    if self.queue.is_empty() {
                        self.violate(
                            "C02",
                            "pending-while-empty",
                            format!("{}: returned Pending while it holds nothing", ctx),
                        );
                    }
                }
                _ => unreachable!(),
            },
            Class::Merge => {
                match out {
                    PollOut::Item(t) => {
                        last = Last::Item;
                        self.res.items += 1;
                        if let Some((child, seq, k)) = self.take_tok(t, "C11", ctx) {
                            with(|w| w.log(0x31, ((child as u64) << 32) | seq as u64));
                            if !self.sources.contains(&child) || k != K_ITEM {
                                self.violate(
                                    "C11",
                                    "item-from-unknown-source",
                                    format!("{}: yielded an item of source {} which is not held", ctx, child),
                                );
                            } else {
                                let exp = with(|w| {
                                    let c = &mut w.children[child as usize];
                                    let e = c.next_expected;
                                    c.next_expected = seq + 1;
                                    e
                                });
                                if exp != seq {
                                    self.violate(
                                        "C11",
                                        "source-order",
                                        format!("{}: source {} yielded item {} where item {} was next", ctx, child, seq, exp),
                                    );
                                }
                            }
                        }
                    }
                    PollOut::End => {
                        last = Last::End;
                        with(|w| w.log(0x32, 0));
                    }
                    PollOut::Pending => {
                        last = Last::Pending;
                        with(|w| w.log(0x33, 0));
                    }
                    _ => unreachable!(),
                }
                // sources that ended in this call leave the model
                let ended: Vec<u32> = with(|w| {
                    w.completed_ids_call
                        .iter()
                        .copied()
                        .filter(|s| self.sources.contains(s))
                        .collect()
                });
                for s in ended {
                    let lost = with(|w| {
                        let c = &w.children[s as usize];
                        c.next_expected != c.next_seq
                    });
                    if lost {
                        self.violate(
                            "C11",
                            "item-lost",
                            format!("{}: source {} ended but not all of its items were yielded", ctx, s),
                        );
                    }
                    self.sources.remove(&s);
                }
                match last {
                    Last::End => {
                        if !self.sources.is_empty() {
                            self.violate(
                                "C11",
                                "none-while-sources-live",
                                format!("{}: returned None while {} sources have not ended", ctx, self.sources.len()),
                            );
                        }
                    }
                    Last::Pending => {
                        if self.sources.is_empty() {
                            self.violate(
                                "C11",
                                "pending-while-empty",
                                format!("{}: returned Pending although every source has ended", ctx),
                            );
                        } else if !task_woken {
                            // Pending only while some source is pending: a source that owes a poll
                            // (has items, or was woken) is not pending from the merge's view
                            let all_owed = with(|w| self.sources.iter().all(|&s| w.children[s as usize].needs_poll));
                            if all_owed {
                                self.violate(
                                    "C11",
                                    "pending-while-no-source-pending",
                                    format!("{}: returned Pending (task not woken) although no held source is pending", ctx),
                                );
                            }
                        }
                    }
                    _ => {}
                }
            }
            Class::Adapter => {
                // newly pulled futures enter the model in pull order
                let (pulled, up_ended, up_pending_call): (Vec<u32>, bool, bool) =
                    with(|w| (std::mem::take(&mut w.pulled_ids_call), w.up.ended, w.up.pending_this_call));
                for c in pulled {
                    if !self.queue.contains(&c) {
                        self.queue.push_back(c);
                    }
                }
                match out {
                    PollOut::Item(t) | PollOut::ItemErr(t) => {
                        last = Last::Item;
                        self.res.items += 1;
                        if let Some((child, _, k)) = self.take_tok(t, "C10", ctx) {
                            let (child, k) = if k == K_ANON {
                                match self.resolve_anon(kind.ordered()) {
                                    Some(c) => (c, K_OK),
                                    // nothing finished that it could stand for: reported below as
                                    // not-in-flight (unordered) / out of order (ordered: head unfinished)
                                    None if kind.ordered() && !self.queue.is_empty() => {
                                        let any = self.resolve_anon(false).unwrap_or(u32::MAX);
                                        (any, K_OK)
                                    }
                                    None => (u32::MAX, K_OK),
                                }
                            } else {
                                (child, k)
                            };
                            with(|w| w.log(0x31, child as u64 ^ ((k as u64) << 40)));
                            if k == K_UPERR {
                                self.err_toks_seen += 1;
                            } else {
                                match self.queue.iter().position(|&c| c == child) {
                                    None => self.violate(
                                        "C10",
                                        "yielded-not-in-flight",
                                        format!("{}: yielded an output of child {} which is not in flight", ctx, child),
                                    ),
                                    Some(pos) => {
                                        if kind.ordered() && pos != 0 {
                                            self.violate(
                                                "C04",
                                                "out-of-order",
                                                format!(
                                                    "{}: yielded the output of child {} before that of child {} which upstream produced earlier",
                                                    ctx, child, self.queue[0]
                                                ),
                                            );
                                        }
                                        self.queue.remove(pos);
                                        with(|w| {
                                            w.mark_yielded(child);
                                            w.adapter_yielded += 1;
                                        });
                                    }
                                }
                            }
                        }
                    }
                    PollOut::End | PollOut::Done => {
                        last = Last::End;
                        with(|w| w.log(0x32, 0));
                    }
                    PollOut::Pending => {
                        last = Last::Pending;
                        with(|w| w.log(0x33, 0));
                    }
                    _ => unreachable!(),
                }
                if kind == SubjectKind::FEC {
                    // outputs are consumed inside: a finished future is "yielded"
                    let fin: Vec<u32> = with(|w| {
                        self.queue
                            .iter()
                            .copied()
                            .filter(|&c| w.children[c as usize].completed_at.is_some())
                            .collect()
                    });
                    for c in fin {
                        self.queue.retain(|&x| x != c);
                        with(|w| w.mark_yielded(c));
                    }
                }
                let n = self.cfg.cap;
                match last {
                    Last::End => {
                        self.done = true;
                        if !up_ended || !self.queue.is_empty() {
                            self.violate(
                                "C10",
                                "ended-early",
                                format!(
                                    "{}: finished although upstream ended={} and {} futures are in flight or parked",
                                    ctx,
                                    up_ended,
                                    self.queue.len()
                                ),
                            );
                        }
                    }
                    Last::Pending => {
                        // "exhausted" is a fact about upstream, whether or not the adapter has asked
                        let exhausted = with(|w| w.up.pos == w.up.script.len());
                        if (up_ended || (exhausted && n >= 1)) && self.queue.is_empty() {
                            self.violate(
                                "C10",
                                "pending-when-done",
                                format!("{}: Pending although upstream is exhausted and nothing is in flight", ctx),
                            );
                        }
                        if n >= 1 && !(self.queue.len() >= n || up_ended || up_pending_call) && !task_woken {
                            // a call that did a budget's worth of work and then stopped with work
                            // still available must have woken its task (C13)
                            let (done, pulled) = with(|w| (w.completions_call, w.pulled_call));
                            if done + pulled >= 61 {
                                self.violate(
                                    "C13",
                                    "stopped-early-without-wake",
                                    format!(
                                        "{}: after {} completions and {} pulls in one call it returned Pending with free slots and a ready upstream, without waking its task",
                                        ctx, done, pulled
                                    ),
                                );
                            }
                        }
                        if n >= 1 && !(self.queue.len() >= n || up_ended || up_pending_call) {
                            self.violate(
                                "C09",
                                "not-saturated",
                                format!(
                                    "{}: Pending with {} of {} slots used, upstream not ended and not pending in this call",
                                    ctx,
                                    self.queue.len(),
                                    n
                                ),
                            );
                        }
                        if n == 0 && kind == SubjectKind::FEC && !up_ended && !up_pending_call && !task_woken && self.queue.is_empty() {
                            self.violate(
                                "C10",
                                "limit-0-never-progresses",
                                format!("{}: limit 0: Pending without polling upstream and without arranging a wake-up", ctx),
                            );
                        }
                    }
                    _ => {}
                }
                if kind.ordered() && n >= 1 && self.queue.len() > n {
                    self.violate(
                        "C16",
                        "backlog-exceeds-limit",
                        format!("{}: {} items pulled but not yielded, limit is {}", ctx, self.queue.len(), n),
                    );
                }
            }
            Class::Join => {
                let inputs: Vec<u32> = self.queue.iter().copied().collect();
                match out {
                    PollOut::Pending => {
                        last = Last::Pending;
                        with(|w| w.log(0x33, 0));
                    }
                    PollOut::Vec(v) => {
                        last = Last::End;
                        let first = !self.done;
                        self.done = true;
                        with(|w| w.log(0x34, v.len() as u64));
                        if first && !self.relaxed {
                            let unfinished = with(|w| inputs.iter().filter(|&&c| w.children[c as usize].completed_at.is_none()).count());
                            if unfinished > 0 {
                                self.violate(
                                    "C07",
                                    "resolved-early",
                                    format!("{}: resolved while {} inputs have not resolved", ctx, unfinished),
                                );
                            }
                            let failed = with(|w| inputs.iter().any(|&c| w.children[c as usize].completed_at.is_some() && w.children[c as usize].beh.fail));
                            if kind == SubjectKind::TJA && failed {
                                self.violate("C07", "ok-despite-failure", format!("{}: resolved Ok although an input failed", ctx));
                            }
                            if v.len() != inputs.len() {
                                self.violate(
                                    "C07",
                                    "wrong-length",
                                    format!("{}: {} outputs for {} inputs", ctx, v.len(), inputs.len()),
                                );
                            }
                        }
                        for (i, t) in v.into_iter().enumerate() {
                            let c2 = if first { "first Ready" } else { "poll after Ready" };
                            if let Some((child, _, k)) = self.take_tok(t, "C07", &format!("{} ({}), element {}", ctx, c2, i)) {
                                let panicked = with(|w| w.children[child as usize].panicked);
                                if panicked {
                                    self.violate(
                                        "C07",
                                        "output-of-panicked-input",
                                        format!("{}: handed out a value for input {} which panicked and produced none", ctx, child),
                                    );
                                }
                                if first && (i >= inputs.len() || inputs[i] != child || k != K_OK) {
                                    self.violate(
                                        "C04",
                                        "wrong-index",
                                        format!("{}: output of input {} placed at index {}", ctx, child, i),
                                    );
                                }
                                with(|w| w.mark_yielded(child));
                            }
                        }
                        if first {
                            with(|w| {
                                for &c in &inputs {
                                    w.mark_yielded(c);
                                }
                            });
                        }
                    }
                    PollOut::VecZst(n) => {
                        last = Last::End;
                        let first = !self.done;
                        self.done = true;
                        with(|w| w.log(0x34, n as u64));
                        if first && !self.relaxed {
                            let unfinished = with(|w| inputs.iter().filter(|&&c| w.children[c as usize].completed_at.is_none()).count());
                            if unfinished > 0 {
                                self.violate("C07", "resolved-early", format!("{}: resolved while {} inputs have not resolved", ctx, unfinished));
                            }
                            if n != inputs.len() {
                                self.violate("C07", "wrong-length", format!("{}: {} outputs for {} inputs", ctx, n, inputs.len()));
                            }
                        }
                        if first {
                            with(|w| {
                                for &c in &inputs {
                                    w.mark_yielded(c);
                                }
                            });
                        }
                    }
                    PollOut::VecErr(e) => {
                        last = Last::End;
                        self.done = true;
                        with(|w| w.log(0x35, 0));
                        if let Some((child, _, k)) = self.take_tok(e, "C07", ctx) {
                            let ok = with(|w| {
                                let c = &w.children[child as usize];
                                k == K_ERR && c.beh.fail && c.completed_at == Some(poll_no)
                            });
                            let others = with(|w| {
                                inputs
                                    .iter()
                                    .filter(|&&c| c != child && w.children[c as usize].beh.fail && !w.children[c as usize].panicked && w.children[c as usize].completed_at.is_some() && !w.children[c as usize].yielded)
                                    .count()
                            });
                            if !ok || others > 0 {
                                self.violate(
                                    "C07",
                                    "wrong-error",
                                    format!("{}: returned the error of input {} which is not the first input observed to fail", ctx, child),
                                );
                            }
                            with(|w| w.mark_yielded(child));
                        }
                    }
                    _ => unreachable!(),
                }
            }
        }
        self.common_after_poll(last, task_woken, poll_no);
        last
    }

    fn common_after_poll(&mut self, last: Last, task_woken: bool, poll_no: u64) {
        let ctx = self.kind().name();
        let g = self.groups();
        if g > self.res.max_groups {
            self.res.max_groups = g;
        }
        let held = held_now();
        if held > self.res.peak_held {
            self.res.peak_held = held;
        }
        let peak = self.res.peak_held;
        // C05b: whoever finished in this call has been dropped before it returned
        let (late, work, completions, ended, pulled, lost, starved, maxwait): (Vec<u32>, u64, u64, u64, u64, Vec<u32>, Vec<(u32, u64)>, u64) = with(|w| {
            let late = w
                .completed_ids_call
                .iter()
                .copied()
                .filter(|&c| w.children[c as usize].drops == 0 && !w.children[c as usize].nodrop && !w.children[c as usize].panicked)
                .collect();
            let mut lost = vec![];
            let mut starved = vec![];
            let mut maxwait = 0;
            // A woken child sits in a FIFO ready queue; every poll handles at least one entry ahead
            // of it (a completion ends the poll) or up to the budget of entries (stale entries for
            // vacant slots are skipped 61 at a time), and the groups take turns. So the wait is at
            // most (entries ahead) x (groups): linear in the held children.
            let stale = w.stale_backlog;
            let bound = (peak as u64 + 2) * (g as u64 + 1) + ((stale + 60) / 61) * (g as u64 + 1) + 8;
            if !w.subject_gone {
                if last == Last::Pending && !task_woken {
                    lost = w.owed_polls.iter().take(8).map(|&(_, i)| i).collect();
                }
                if let Some(&(since, i)) = w.owed_polls.iter().next() {
                    let waited = poll_no - since;
                    maxwait = waited;
                    if waited > bound {
                        starved.push((i, waited));
                    }
                }
            }
            (late, w.child_polls_call, w.completions_call, w.ended_call, w.pulled_call, lost, starved, maxwait)
        });
        if maxwait > self.res.max_wait {
            self.res.max_wait = maxwait;
        }
        if work > self.res.max_work {
            self.res.max_work = work;
        }
        for c in late {
            self.violate(
                "C05",
                "not-released-promptly",
                format!("{}: child {} finished in poll #{} but was not dropped before that poll returned", ctx, c, poll_no),
            );
        }
        let budget_hits = probes::hits()[0];
        let budget_stop = budget_hits > self.budget_hits_seen;
        self.budget_hits_seen = budget_hits;
        if !lost.is_empty() && !self.relaxed && budget_stop {
            self.violate(
                "C13",
                "budget-stop-without-wake",
                format!(
                    "{}: poll #{} stopped on its polling budget and returned Pending without waking its task; children {:?} are still owed a poll",
                    ctx, poll_no, &lost[..lost.len().min(4)]
                ),
            );
        }
        if !lost.is_empty() && !self.relaxed && !budget_stop && work + completions + ended >= 48 {
            // a call that did a budget's worth of work and then stopped with children still owed a
            // poll, without waking its task: it stopped early and forgot the rest (C13), whether or
            // not the stop went through the instrumented budget branch
            self.violate(
                "C13",
                "stopped-early-without-wake",
                format!(
                    "{}: poll #{} polled {} children ({} finished) and then returned Pending without waking its task; children {:?} are still owed a poll",
                    ctx, poll_no, work, completions + ended, &lost[..lost.len().min(4)]
                ),
            );
        }
        if !lost.is_empty() && !self.relaxed {
            self.violate(
                "C01",
                "pending-with-unpolled-child",
                format!(
                    "{}: poll #{} returned Pending without the task waker being invoked while children {:?} are owed a poll",
                    ctx, poll_no, &lost[..lost.len().min(4)]
                ),
            );
        }
        if let (Some(&(c, waited)), false) = (starved.first(), self.relaxed) {
            self.violate(
                "C13",
                "starved",
                format!(
                    "{}: child {} has been owed a poll for {} polls (held peak {}, groups {})",
                    ctx, c, waited, peak, g
                ),
            );
        }
        // "bounded": independent of how long children keep waking themselves. The constant is
        // deliberately far above the crate's current per-drain budget (61) so that a different,
        // still bounded, budget is not reported.
        let bound = 1024 * (g.max(1) as u64) * (1 + completions + ended + pulled) + 8 * peak as u64;
        if work > bound {
            self.violate(
                "C13",
                "too-much-work-in-one-poll",
                format!(
                    "{}: {} child polls in one call (completions {}, ended {}, pulled {}, groups {}; bound {})",
                    ctx, work, completions, ended, pulled, g, bound
                ),
            );
        }
        self.collect_probe_errors();
    }

    // ---------------------------------------------------------------------------------------
    fn check_observers(&mut self) {
        let Some(s) = &self.subj else { return };
        let kind = self.kind();
        let ctx = kind.name();
        F.with(|f| f.quiet_panic.set(true));
        let o: Result<Obs, _> = catch_unwind(AssertUnwindSafe(|| s.obs()));
        F.with(|f| f.quiet_panic.set(false));
        let o: Obs = match o {
            Ok(o) => o,
            Err(_) => {
                self.violate(
                    "C17",
                    "observer-panicked",
                    format!("{}: size_hint / len / is_empty / is_terminated panicked", ctx),
                );
                return;
            }
        };
        if let Some((_, groups)) = &o.layout {
            let mut h = 0xcbf29ce484222325u64;
            for &(c, l) in groups {
                h = (h ^ (c as u64 * 1_000_003 + l as u64)).wrapping_mul(0x100000001b3);
            }
            if !self.res.layouts.contains(&h) && self.res.layouts.len() < 64 {
                self.res.layouts.push(h);
            }
        }
        match self.class {
            Class::Collection => {
                let n = self.queue.len();
                let mut bad = vec![];
                if o.len != Some(n) {
                    bad.push(format!("len() = {:?}, expected {}", o.len, n));
                }
                if o.is_empty != Some(n == 0) {
                    bad.push(format!("is_empty() = {:?} with {} held", o.is_empty, n));
                }
                if o.is_terminated != Some(n == 0) {
                    bad.push(format!("is_terminated() = {:?} with {} held", o.is_terminated, n));
                }
                if let Some(c) = o.capacity {
                    if kind.bounded() && c != self.capn {
                        bad.push(format!("capacity() = {}, expected {}", c, self.capn));
                    }
                }
                if kind == SubjectKind::FUB && n > self.capn {
                    bad.push(format!("holds {} futures with capacity {}", n, self.capn));
                }
                if let Some((lo, hi)) = o.size_hint {
                    if lo > n || hi.map_or(false, |h| h < n) {
                        self.violate(
                            "C17",
                            "size-hint-wrong",
                            format!("{}: size_hint = ({}, {:?}) but {} items will still be yielded", ctx, lo, hi, n),
                        );
                    }
                    if (lo, hi) != (n, Some(n)) {
                        bad.push(format!("size_hint() = ({}, {:?}), expected ({}, Some({}))", lo, hi, n, n));
                    }
                }
                for b in bad {
                    self.violate("C15", "observer-mismatch", format!("{}: {}", ctx, b));
                }
            }
            Class::Merge => {
                let n = self.sources.len();
                if let Some(l) = o.len {
                    if l != n {
                        self.violate("C15", "observer-mismatch", format!("{}: len() = {}, {} sources held", ctx, l, n));
                    }
                }
                if let Some(e) = o.is_empty {
                    if e != (n == 0) {
                        self.violate("C15", "observer-mismatch", format!("{}: is_empty() = {}, {} sources held", ctx, e, n));
                    }
                }
                if let Some((lo, hi)) = o.size_hint {
                    // remaining items are not known to the environment in general; the only sure
                    // facts: with no source held nothing more comes; lower must not exceed what
                    // is certainly available
                    let (avail, infinite) = with(|w| {
                        let mut a = 0u64;
                        let mut inf = false;
                        for &s in &self.sources {
                            let c = &w.children[s as usize];
                            if c.avail == INF {
                                inf = true;
                            } else {
                                a += c.avail as u64;
                            }
                        }
                        (a, inf)
                    });
                    let all_closed = with(|w| self.sources.iter().all(|&s| w.children[s as usize].closed));
                    if all_closed && !infinite {
                        if (lo as u64) > avail || hi.map_or(false, |h| (h as u64) < avail) {
                            self.violate(
                                "C17",
                                "size-hint-wrong",
                                format!("{}: size_hint = ({}, {:?}) but exactly {} items will still be yielded", ctx, lo, hi, avail),
                            );
                        }
                    }
                }
            }
            Class::Adapter => {
                if let Some((lo, hi)) = o.size_hint {
                    let (rem, _ended) = with(|w| (w.up.remaining(), w.up.ended));
                    let remaining = rem + self.queue.len();
                    if lo > remaining || hi.map_or(false, |h| h < remaining) {
                        self.violate(
                            "C17",
                            "size-hint-wrong",
                            format!(
                                "{}: size_hint = ({}, {:?}) but {} items will still be yielded ({} upstream + {} in flight)",
                                ctx,
                                lo,
                                hi,
                                remaining,
                                rem,
                                self.queue.len()
                            ),
                        );
                    }
                }
                if let Some(t) = o.is_terminated {
                    let fin = with(|w| w.up.ended) && self.queue.is_empty();
                    if t && !fin {
                        self.violate("C10", "terminated-early", format!("{}: is_terminated() while work remains", ctx));
                    }
                }
            }
            Class::Join => {}
        }
    }

    fn check_allocs(&mut self) {
        if self.subj.is_none() {
            return;
        }
        use SubjectKind::*;
        let kind = self.kind();
        let allocs = F.with(|f| f.allocs_in_crate.get()) - self.allocs_ctor;
        self.res.allocs_after_ctor = allocs;
        match kind {
            FUB | MB | BU | TBU | FEC | JA | TJA => {
                if allocs > 0 {
                    self.violate(
                        "C18",
                        "alloc-after-construction",
                        format!("{}: {} heap allocations after construction", kind.name(), allocs),
                    );
                }
            }
            FU | FO | MU => {
                let peak = self.res.peak_held.max(self.cfg.cap).max(1) as u64;
                let lg = 64 - (peak + 1).leading_zeros() as u64;
                let bound = 4 * (lg + 2) + 8;
                if allocs > bound {
                    self.violate(
                        "C18",
                        "alloc-not-logarithmic",
                        format!(
                            "{}: {} heap allocations with a peak of {} held children (bound {})",
                            kind.name(),
                            allocs,
                            peak,
                            bound
                        ),
                    );
                }
            }
            _ => {}
        }
    }

    fn after_op(&mut self) {
        if self.dead {
            return;
        }
        // pool trimming (drop oldest extras)
        with(|w| {
            while w.wakers.len() > POOL_LIMIT {
                let h = w.wakers.remove(0);
                w.trash.push(h.waker);
            }
            while w.owed.len() > POOL_LIMIT {
                let h = w.owed.remove(0);
                w.trash.push(h.waker);
            }
        });
        if let Err(p) = empty_trash() {
            self.handle_panic(p, "waker drop");
            return;
        }
        let unbr = F.with(|f| f.unbracketed_task_wakes.replace(0));
        if unbr > 0 {
            self.violate(
                "C14",
                "unbracketed-task-wake",
                format!(
                    "{}: the task waker was invoked {} times outside a poll and not as a consequence of a child waker being invoked",
                    self.kind().name(),
                    unbr
                ),
            );
        }
        // C01 between polls: a wake after a Pending poll must reach the task waker of that poll
        if self.last == Last::Pending && self.subj.is_some() && !self.relaxed && !F.with(|f| f.task_woken.get()) {
            let lost: Vec<u32> = with(|w| {
                w.live_children()
                    .into_iter()
                    .filter(|&i| w.children[i as usize].needs_poll && w.children[i as usize].needs_by_wake)
                    .collect()
            });
            if !lost.is_empty() {
                self.violate(
                    "C01",
                    "wake-not-forwarded",
                    format!(
                        "{}: children {:?} were woken after the last poll returned Pending but the task waker of that poll was not invoked",
                        self.kind().name(),
                        &lost[..lost.len().min(4)]
                    ),
                );
            }
        }
        self.check_observers();
        self.check_allocs();
        self.collect_probe_errors();
    }

    // ---------------------------------------------------------------------------------------
    fn bracket<R>(&mut self, f: impl FnOnce() -> R) -> Option<R> {
        F.with(|x| x.in_bracket.set(true));
        let r = catch_unwind(AssertUnwindSafe(f));
        F.with(|x| x.in_bracket.set(false));
        match r {
            Ok(v) => Some(v),
            Err(p) => {
                self.handle_panic(p, "waker invocation");
                None
            }
        }
    }

    /// Wake a child that was just made ready / fed / closed.
    fn wake_child(&mut self, id: u32, delay: bool) {
        let stored = with(|w| w.children[id as usize].stored.take());
        let Some(wk) = stored else { return };
        if delay {
            let c = self.bracket(|| flags::in_crate(|| wk.clone()));
            with(|w| {
                w.children[id as usize].stored = Some(wk);
                if let Some(c) = c {
                    w.owed.push(HeldWaker { child: id, waker: c });
                    w.faults[FA_DELAYED] += 1;
                }
            });
        } else {
            self.bracket(|| invoke_ref(id, &wk));
            if self.dead {
                std::mem::forget(wk);
                return;
            }
            let back = with(|w| {
                let c = &mut w.children[id as usize];
                if c.stored.is_none() && c.completed_at.is_none() && c.drops == 0 {
                    c.stored = Some(wk);
                    None
                } else {
                    Some(wk)
                }
            });
            if let Some(wk) = back {
                with(|w| w.wakers.push(HeldWaker { child: id, waker: wk }));
            }
        }
    }

    fn push_child(&mut self, beh: Beh, how: PushHow) {
        if self.subj.is_none() {
            return;
        }
        let kind = self.kind();
        let ck = match self.class {
            Class::Collection => CKind::Fut,
            Class::Merge => CKind::Src,
            _ => return,
        };
        let how = if kind.ordered() {
            how
        } else {
            match how {
                PushHow::Front => PushHow::Back,
                PushHow::TryFront => PushHow::TryBack,
                h => h,
            }
        };
        let id = with(|w| w.new_child(ck, beh));
        let running = match self.class {
            // (only bounded subjects need the count; it is linear in the population)
            Class::Collection if kind.bounded() => with(|w| self.queue.iter().filter(|&&c| w.children[c as usize].completed_at.is_none()).count()),
            Class::Collection => 0,
            _ => self.sources.len(),
        };
        let expect_accept = !kind.bounded() || running < self.capn;
        let allocs_before = F.with(|f| f.allocs_in_crate.get());
        let mut subj = self.subj.take().unwrap();
        let r = catch_unwind(AssertUnwindSafe(|| flags::in_crate(|| subj.push(id, how))));
        let out = match r {
            Ok(o) => {
                self.subj = Some(subj);
                o
            }
            Err(p) => {
                std::mem::forget(subj);
                self.handle_panic(p, "push");
                return;
            }
        };
        let ctx = kind.name();
        match out {
            PushOut::Accepted => {
                if !expect_accept {
                    self.violate(
                        "C15",
                        "accepted-beyond-capacity",
                        format!("{}: accepted a push with {} running and capacity {}", ctx, running, self.capn),
                    );
                }
                with(|w| {
                    w.accept(id);
                    w.log(0x40, id as u64);
                });
                let h = held_now();
                if h > self.res.peak_held {
                    self.res.peak_held = h;
                }
                match self.class {
                    Class::Collection => match how {
                        PushHow::Front | PushHow::TryFront => self.queue.push_front(id),
                        _ => self.queue.push_back(id),
                    },
                    _ => {
                        self.sources.insert(id);
                    }
                }
            }
            PushOut::Refused(rid) => {
                let oi = with(|w| w.op_index);
                self.res.refused_ops.push(oi.saturating_sub(1));
                with(|w| {
                    w.faults[FA_REFUSED] += 1;
                    w.log(0x41, id as u64);
                });
                if expect_accept {
                    self.violate(
                        "C15",
                        "refused-with-room",
                        format!("{}: try_push refused with {} running and capacity {}", ctx, running, self.capn),
                    );
                }
                if rid != id {
                    self.violate("C15", "refused-other-future", format!("{}: try_push handed back a different future", ctx));
                }
            }
            PushOut::Panicked => {
                // the panic machinery allocates its payload; that is not the crate's doing
                F.with(|f| f.allocs_in_crate.set(allocs_before));
                let oi = with(|w| w.op_index);
                self.res.refused_ops.push(oi.saturating_sub(1));
                with(|w| {
                    w.faults[FA_REFUSED] += 1;
                    w.log(0x42, id as u64);
                });
                if expect_accept {
                    self.violate(
                        "C15",
                        "push-panicked-with-room",
                        format!("{}: push panicked with {} running and capacity {}", ctx, running, self.capn),
                    );
                }
            }
            PushOut::Unsupported => {}
        }
    }

    fn extend(&mut self, behs: &[Beh]) {
        if self.subj.is_none() || !matches!(self.kind(), SubjectKind::FOB | SubjectKind::FO) {
            return;
        }
        let running = with(|w| self.queue.iter().filter(|&&c| w.children[c as usize].completed_at.is_none()).count());
        let room = if self.kind().bounded() {
            self.capn.saturating_sub(running)
        } else {
            usize::MAX
        };
        // A batch that does not fit makes extend() panic part-way. Half of the time the batch is cut
        // to what fits; otherwise the whole batch is given and the panic is expected: whatever
        // prefix was accepted stays, the queue must go on working (C15).
        let overflow = behs.len() > room && (behs.len() + room) % 2 == 0;
        let take = if overflow { behs.len() } else { room.min(behs.len()) };
        let ids: Vec<u32> = with(|w| behs.iter().take(take).map(|&b| w.new_child(CKind::Fut, b)).collect());
        if ids.is_empty() {
            return;
        }
        let len_before = self.safe_obs().and_then(|o| o.len).unwrap_or(0);
        let allocs_before = F.with(|f| f.allocs_in_crate.get());
        let mut subj = self.subj.take().unwrap();
        let ids2 = ids.clone();
        let r = catch_unwind(AssertUnwindSafe(|| flags::in_crate(|| subj.extend(ids2))));
        match r {
            Ok(ok) => {
                self.subj = Some(subj);
                let mut accepted = ids.len();
                if !ok {
                    F.with(|f| f.allocs_in_crate.set(allocs_before));
                    if !overflow {
                        self.violate(
                            "C15",
                            "push-panicked-with-room",
                            format!("{}: extend panicked although there was room", self.kind().name()),
                        );
                        return;
                    }
                    with(|w| w.faults[FA_REFUSED] += 1);
                    let oi = with(|w| w.op_index);
                    self.res.refused_ops.push(oi.saturating_sub(1));
                    // how much of the batch went in before the panic
                    let len_after = self.safe_obs().and_then(|o| o.len).unwrap_or(len_before);
                    accepted = len_after.saturating_sub(len_before).min(ids.len());
                    // the iterator was abandoned at the panic: the rest of the batch was never
                    // turned into futures, there is nothing to drop for them
                    with(|w| {
                        for &id in ids.iter().skip(accepted) {
                            if w.children[id as usize].drops == 0 {
                                w.children[id as usize].nodrop = true;
                            }
                        }
                    });
                    if accepted > room {
                        self.violate(
                            "C15",
                            "accepted-beyond-capacity",
                            format!("{}: extend accepted {} futures with room for {}", self.kind().name(), accepted, room),
                        );
                    }
                } else if overflow {
                    self.violate(
                        "C15",
                        "accepted-beyond-capacity",
                        format!("{}: extend of {} futures succeeded with room for {}", self.kind().name(), ids.len(), room),
                    );
                }
                for &id in ids.iter().take(accepted) {
                    with(|w| {
                        w.accept(id);
                        w.log(0x40, id as u64);
                    });
                    self.queue.push_back(id);
                }
                let h = held_now();
                if h > self.res.peak_held {
                    self.res.peak_held = h;
                }
            }
            Err(p) => {
                std::mem::forget(subj);
                self.handle_panic(p, "extend");
            }
        }
    }

    /// All outstanding wakers of live children: (is_stored, index/child).
    fn live_wakers(&self) -> Vec<(bool, u32)> {
        with(|w| {
            let mut v = vec![];
            for i in w.live_children() {
                if w.children[i as usize].stored.is_some() {
                    v.push((true, i));
                }
            }
            for (k, h) in w.wakers.iter().enumerate() {
                if (h.child as usize) < w.children.len() && w.is_live(h.child) {
                    v.push((false, k as u32));
                }
            }
            v
        })
    }

    fn wake_op(&mut self, sel: u16, how: WakeHow, times: u8) {
        if with(|w| w.frozen) {
            return;
        }
        let cands = self.live_wakers();
        if cands.is_empty() {
            return;
        }
        let (is_stored, ix) = cands[pick(sel, cands.len())];
        // take the waker out
        let (child, wk) = with(|w| {
            if is_stored {
                (ix, w.children[ix as usize].stored.take().unwrap())
            } else {
                let h = w.wakers.remove(ix as usize);
                (h.child, h.waker)
            }
        });
        with(|w| {
            let c = &w.children[child as usize];
            let dup = c.ready || c.avail > 0 || c.closed || c.needs_poll;
            w.faults[if dup { FA_DUP } else { FA_SPURIOUS }] += 1;
            w.log(0x50, child as u64);
        });
        let times = times.max(1);
        let mut keep: Option<Waker> = Some(wk);
        for t in 0..times {
            if self.dead {
                break;
            }
            let lastt = t + 1 == times;
            match how {
                WakeHow::ByRef => {
                    let wk = keep.as_ref().unwrap();
                    self.bracket(|| invoke_ref(child, wk));
                }
                WakeHow::CloneThenWake => {
                    let wk = keep.as_ref().unwrap();
                    self.bracket(|| {
                        let c = flags::in_crate(|| wk.clone());
                        invoke_val(child, c)
                    });
                    with(|w| w.faults[FA_CLONE] += 1);
                }
                WakeHow::ByValue => {
                    if lastt {
                        let wk = keep.take().unwrap();
                        self.bracket(|| invoke_val(child, wk));
                    } else {
                        let wk = keep.as_ref().unwrap();
                        self.bracket(|| invoke_ref(child, wk));
                    }
                }
            }
        }
        if self.dead {
            if let Some(k) = keep {
                std::mem::forget(k);
            }
            return;
        }
        if let Some(wk) = keep {
            with(|w| {
                let c = &mut w.children[child as usize];
                if is_stored && c.stored.is_none() && c.completed_at.is_none() && c.drops == 0 {
                    c.stored = Some(wk);
                } else {
                    w.wakers.push(HeldWaker { child, waker: wk });
                }
            });
        }
    }

    fn stale_op(&mut self, sel: u16, how: WakeHow) {
        let cands: Vec<usize> = with(|w| {
            w.wakers
                .iter()
                .enumerate()
                .filter(|(_, h)| !((h.child as usize) < w.children.len() && w.is_live(h.child)))
                .map(|(k, _)| k)
                .collect()
        });
        if cands.is_empty() {
            return;
        }
        let k = cands[pick(sel, cands.len())];
        let (h, gone) = with(|w| {
            let h = w.wakers.remove(k);
            w.faults[if w.subject_gone { FA_AFTER_DROP } else { FA_STALE }] += 1;
            w.log(0x51, h.child as u64);
            (h, w.subject_gone)
        });
        let before = (
            F.with(|f| f.allocs_in_crate.get()),
            with(|w| (w.child_polls_total, w.children.iter().map(|c| c.drops as u64).sum::<u64>())),
        );
        let child = h.child;
        match how {
            WakeHow::ByValue => {
                self.bracket(|| invoke_val(child, h.waker));
            }
            WakeHow::ByRef => {
                self.bracket(|| invoke_ref(child, &h.waker));
                if self.dead {
                    std::mem::forget(h.waker);
                    return;
                }
                with(|w| w.wakers.push(h));
            }
            WakeHow::CloneThenWake => {
                self.bracket(|| {
                    let c = flags::in_crate(|| h.waker.clone());
                    invoke_val(child, c)
                });
                if self.dead {
                    std::mem::forget(h.waker);
                    return;
                }
                with(|w| w.wakers.push(h));
            }
        }
        if gone && !self.dead {
            let after = (
                F.with(|f| f.allocs_in_crate.get()),
                with(|w| (w.child_polls_total, w.children.iter().map(|c| c.drops as u64).sum::<u64>())),
            );
            if after != before {
                self.violate(
                    "C03",
                    "effect-after-collection-gone",
                    format!(
                        "{}: invoking a waker after the collection was dropped polled, dropped or allocated something",
                        self.kind().name()
                    ),
                );
            }
        }
    }

    fn all_waker_refs(&self) -> usize {
        with(|w| w.live.iter().filter(|&&c| w.children[c as usize].stored.is_some()).count() + w.wakers.len() + w.owed.len())
    }

    fn clone_op(&mut self, sel: u16) {
        let n = self.all_waker_refs();
        if n == 0 {
            return;
        }
        let k = pick(sel, n);
        // locate and clone without taking it out (clone runs the crate's vtable)
        let r = catch_unwind(AssertUnwindSafe(|| {
            with(|w| {
                let mut k = k;
                for &i in w.live.iter() {
                    if let Some(s) = &w.children[i as usize].stored {
                        if k == 0 {
                            return (i, flags::in_crate(|| s.clone()));
                        }
                        k -= 1;
                    }
                }
                if k < w.wakers.len() {
                    return (w.wakers[k].child, flags::in_crate(|| w.wakers[k].waker.clone()));
                }
                k -= w.wakers.len();
                (w.owed[k].child, flags::in_crate(|| w.owed[k].waker.clone()))
            })
        }));
        match r {
            Ok((child, wk)) => with(|w| {
                w.wakers.push(HeldWaker { child, waker: wk });
                w.faults[FA_CLONE] += 1;
                w.log(0x52, child as u64);
            }),
            Err(p) => self.handle_panic(p, "waker clone"),
        }
    }

    fn drop_op(&mut self, sel: u16) {
        let h = with(|w| {
            if w.wakers.is_empty() {
                None
            } else {
                let k = pick(sel, w.wakers.len());
                w.faults[FA_DROPW] += 1;
                let h = w.wakers.remove(k);
                w.log(0x53, h.child as u64);
                Some(h)
            }
        });
        if let Some(h) = h {
            if let Err(p) = catch_unwind(AssertUnwindSafe(|| flags::in_crate(|| drop(h.waker)))) {
                self.handle_panic(p, "waker drop");
            }
        }
    }

    fn deliver(&mut self, sel: u16) {
        let h = with(|w| {
            if w.owed.is_empty() {
                None
            } else {
                let k = pick(sel, w.owed.len());
                Some(w.owed.remove(k))
            }
        });
        if let Some(h) = h {
            with(|w| w.log(0x54, h.child as u64));
            if h.child == UP_TAG {
                self.bracket(|| h.waker.wake());
            } else {
                let (c, wk) = (h.child, h.waker);
                self.bracket(|| invoke_val(c, wk));
            }
        }
    }

    fn release(&mut self, n: u8, delay: bool) {
        if self.class != Class::Adapter {
            return;
        }
        let wk = with(|w| {
            let before = w.up.released;
            w.up.released = (w.up.released + n as usize).min(w.up.script.len());
            w.log(0x55, w.up.released as u64);
            if w.up.released > before || w.up.pos == w.up.script.len() {
                w.up.stored.take()
            } else {
                None
            }
        });
        if let Some(wk) = wk {
            if delay {
                with(|w| {
                    w.owed.push(HeldWaker { child: UP_TAG, waker: wk });
                    w.faults[FA_DELAYED] += 1;
                });
            } else {
                self.bracket(|| wk.wake());
            }
        }
    }

    fn cancel(&mut self) {
        let Some(s) = self.subj.take() else { return };
        with(|w| {
            w.faults[FA_CANCEL] += 1;
            w.log(0x56, 0);
        });
        self.drop_subject(s);
    }

    fn drop_subject(&mut self, s: Box<dyn Subject>) {
        let r = catch_unwind(AssertUnwindSafe(|| flags::in_crate(|| drop(s))));
        if let Err(p) = r {
            self.handle_panic(p, "drop of the subject");
            return;
        }
        with(|w| w.subject_gone = true);
        // C06: everything the subject still owned must be gone now
        let (kids, outs): (Vec<u32>, Vec<u32>) = with(|w| {
            let k = (0..w.children.len() as u32)
                .filter(|&i| w.children[i as usize].drops == 0 && !w.children[i as usize].nodrop)
                .collect();
            let o = (0..w.toks.len() as u32)
                .filter(|&i| w.toks[i as usize].drops == 0 && !w.toks[i as usize].nodrop)
                .collect();
            (k, o)
        });
        let ctx = self.kind().name();
        if !kids.is_empty() {
            self.violate(
                "C06",
                "child-leak",
                format!("{}: {} children were not dropped when their owner was dropped (first: child {})", ctx, kids.len(), kids[0]),
            );
        }
        if !outs.is_empty() {
            let (c, k) = with(|w| (w.toks[outs[0] as usize].child, w.toks[outs[0] as usize].kind));
            self.violate(
                "C06",
                "output-leak",
                format!(
                    "{}: {} outputs produced inside were never dropped (first: output of child {}, kind {})",
                    ctx,
                    outs.len(),
                    c as i64,
                    k
                ),
            );
        }
        self.queue.clear();
        self.sources.clear();
    }

    fn relocate(&mut self) {
        let Some(s) = self.subj.take() else { return };
        let (s, moved) = s.relocate();
        self.subj = Some(s);
        if moved {
            with(|w| {
                w.faults[FA_RELOC] += 1;
                w.log(0x57, 0);
            });
        }
    }

    fn poll_after_ready(&mut self) {
        if self.dead || self.subj.is_none() || !self.done || self.class != Class::Join {
            return;
        }
        let id = self.next_task.max(1);
        with(|w| {
            w.poll_no += 1;
            w.child_polls_call = 0;
            w.completions_call = 0;
            w.ended_call = 0;
            w.pulled_call = 0;
            w.completed_ids_call.clear();
            w.pulled_ids_call.clear();
            let pn = w.poll_no;
            w.log(0x36, pn);
        });
        F.with(|f| {
            f.cur_task.set(id);
            f.task_woken.set(false);
            f.in_subject_poll.set(true);
            f.quiet_panic.set(true);
        });
        let waker = flags::task_waker(id);
        let mut subj = self.subj.take().unwrap();
        let allocs_before = F.with(|f| f.allocs_in_crate.get());
        let r = catch_unwind(AssertUnwindSafe(|| {
            let mut cx = Context::from_waker(&waker);
            flags::in_crate(|| subj.poll(&mut cx))
        }));
        if r.is_err() {
            F.with(|f| f.allocs_in_crate.set(allocs_before));
        }
        F.with(|f| {
            f.in_subject_poll.set(false);
            f.quiet_panic.set(false);
        });
        self.res.polls += 1;
        match r {
            Err(p) => {
                if p.downcast_ref::<AbortRun>().is_some() || p.downcast_ref::<WorkCapExceeded>().is_some() {
                    std::mem::forget(subj);
                    std::mem::forget(waker);
                    self.handle_panic(p, "poll after Ready");
                    return;
                }
                // a panic is an accepted answer to polling a finished future
                if p.downcast_ref::<ChildPanic>().is_some() {
                    self.relaxed = true;
                }
                F.with(|f| f.in_crate.set(0));
                with(|w| w.log(0x37, 0));
                self.subj = Some(subj);
                drop(waker);
            }
            Ok(out) => {
                self.subj = Some(subj);
                drop(waker);
                let l = self.after_poll(out);
                self.last = l;
            }
        }
    }

    fn freeze_precondition(&self) -> bool {
        with(|w| {
            for i in w.live_children() {
                let c = &w.children[i as usize];
                match c.kind {
                    CKind::Fut => {
                        if c.ready {
                            return false;
                        }
                    }
                    CKind::Src => {
                        if c.avail > 0 || c.closed {
                            return false;
                        }
                    }
                }
            }
            // an adapter whose window is full cannot pull: what upstream has at hand does not matter
            let full = self.class == Class::Adapter && self.cfg.cap >= 1 && self.queue.len() >= self.cfg.cap;
            if self.class == Class::Adapter && !full {
                // upstream must be pending or exhausted
                if !w.up.ended && w.up.pos < w.up.released {
                    return false;
                }
                if !w.up.ended && w.up.pos == w.up.script.len() {
                    return false;
                }
            }
            true
        })
    }

    /// C14 phase oracle.
    fn freeze(&mut self, fresh: bool) {
        if self.dead || self.relaxed || self.subj.is_none() || (self.done && self.class == Class::Join) {
            return;
        }
        if self.done && self.kind() == SubjectKind::FEC {
            return;
        }
        if !self.freeze_precondition() {
            self.res.freeze_skipped += 1;
            return;
        }
        self.res.freeze_checks += 1;
        with(|w| w.frozen = true);
        let h = held_now() as u64;
        let g = self.groups() as u64;
        let vac = probes::hits()[2];
        let backlog = with(|w| w.stale_backlog).saturating_sub(vac);
        let strict = h + 2;
        let relaxed = h + 2 + (backlog + 60) / 61 + g;
        let mut pendings = 0u64;
        let mut quiet_at: Option<u64> = None;
        let mut total = 0u64;
        while total < relaxed + h + 8 {
            total += 1;
            match self.poll_once(fresh) {
                Last::Pending => {
                    pendings += 1;
                    if !F.with(|f| f.task_woken.get()) && F.with(|f| f.task_wakes_in_poll.get()) == 0 {
                        quiet_at = Some(pendings);
                        break;
                    }
                }
                Last::End | Last::None => {
                    quiet_at = Some(pendings);
                    break;
                }
                Last::Item => {}
            }
            if self.dead {
                return;
            }
        }
        let ctx = self.kind().name();
        match quiet_at {
            Some(p) if p <= strict => {}
            Some(p) if p <= relaxed => self.violate(
                "C14",
                "stale-backlog-over-budget",
                format!(
                    "{}: every child pending and nobody waking, yet a quiet Pending needed {} calls with {} held (stale backlog {})",
                    ctx, p, h, backlog
                ),
            ),
            _ => self.violate(
                "C14",
                "busy-spin",
                format!(
                    "{}: every child pending and nobody waking, yet no quiet Pending within {} calls ({} held)",
                    ctx, total, h
                ),
            ),
        }
        with(|w| w.frozen = false);
    }

    fn quiesce(&mut self) {
        if self.dead || self.subj.is_none() {
            return;
        }
        if self.relaxed {
            // no liveness claims after a caught child panic; still poll a few times
            for _ in 0..4 {
                if self.poll_once(false) == Last::None || self.dead {
                    break;
                }
            }
            return;
        }
        if self.done && (self.class == Class::Join || self.kind() == SubjectKind::FEC) {
            // a future that has resolved owes nothing to anybody
            return;
        }
        self.res.quiesces += 1;
        with(|w| w.frozen = true);
        loop {
            let n = with(|w| w.owed.len());
            if n == 0 || self.dead {
                break;
            }
            self.deliver(0);
        }
        if self.dead {
            return;
        }
        let h = held_now() as u64;
        let g = self.groups() as u64;
        let vac = probes::hits()[2];
        let backlog = with(|w| w.stale_backlog).saturating_sub(vac);
        let bound = 4 * (h + 2) * (g + 1) + 8 + (backlog + 60) / 61;
        let mut pendings = 0u64;
        let mut total = 0u64;
        let mut fix = false;
        let mut first = true;
        while total < bound + 2 * h + 64 {
            let woken = F.with(|f| f.task_woken.get());
            let go = first || self.last == Last::Item || (self.last == Last::Pending && woken);
            if !go {
                fix = true;
                break;
            }
            first = false;
            total += 1;
            match self.poll_once(false) {
                Last::Pending => pendings += 1,
                Last::None => {
                    fix = true;
                    break;
                }
                _ => {}
            }
            if self.dead {
                return;
            }
            if pendings > bound {
                break;
            }
        }
        let ctx = self.kind().name();
        if pendings > bound {
            self.violate(
                "C14",
                "no-fixpoint",
                format!("{}: with all faults stopped the task kept being woken for {} Pending polls ({} held)", ctx, pendings, h),
            );
        } else if fix && self.subj.is_some() && !self.relaxed && !(self.done && (self.class == Class::Join || self.kind() == SubjectKind::FEC)) {
            let (lost, unyielded): (Vec<u32>, Vec<u32>) = with(|w| {
                let l = w
                    .live_children()
                    .into_iter()
                    .filter(|&i| w.children[i as usize].needs_poll)
                    .collect();
                let u = w
                    .live_children()
                    .into_iter()
                    .filter(|&i| {
                        let c = &w.children[i as usize];
                        c.kind == CKind::Fut && c.ready
                    })
                    .collect();
                (l, u)
            });
            if !lost.is_empty() {
                self.violate(
                    "C01",
                    "lost-wake-at-fixpoint",
                    format!("{}: executor went idle while children {:?} are owed a poll", ctx, &lost[..lost.len().min(4)]),
                );
            }
            if !unyielded.is_empty() && self.class == Class::Collection {
                self.violate(
                    "C02",
                    "ready-not-yielded",
                    format!(
                        "{}: executor went idle while ready futures {:?} were never polled to completion",
                        ctx,
                        &unyielded[..unyielded.len().min(4)]
                    ),
                );
            }
        }
        with(|w| w.frozen = false);
    }

    fn step(&mut self, op: &Op) {
        match op {
            Op::Push { beh, how } => self.push_child(*beh, *how),
            Op::Extend { behs } => self.extend(behs),
            Op::PushMany { beh, n } => {
                for _ in 0..*n {
                    if self.dead {
                        break;
                    }
                    self.push_child(*beh, PushHow::Back);
                }
            }
            Op::FinishOldest { n } => {
                if with(|w| w.frozen) {
                    return;
                }
                let ids: Vec<u32> = with(|w| {
                    w.live_children()
                        .into_iter()
                        .filter(|&i| {
                            let c = &w.children[i as usize];
                            match c.kind {
                                CKind::Fut => !c.ready,
                                CKind::Src => !c.closed,
                            }
                        })
                        .take(*n as usize)
                        .collect()
                });
                for id in ids {
                    if self.dead {
                        break;
                    }
                    with(|w| {
                        let promise = w.src_promise;
                        let ch = &mut w.children[id as usize];
                        match ch.kind {
                            CKind::Fut => {
                                ch.ready = true;
                                w.log(0x58, id as u64);
                            }
                            CKind::Src => {
                                ch.closed = true;
                                if ch.avail == INF {
                                    ch.avail = 0;
                                }
                                if promise && ch.avail == 0 {
                                    ch.avail = 1;
                                }
                                w.log(0x5a, id as u64);
                            }
                        }
                    });
                    self.wake_child(id, false);
                }
            }
            Op::Poll { fresh } => {
                self.poll_once(*fresh);
            }
            Op::PollMany { max, fresh } => {
                let mut fresh = *fresh;
                for _ in 0..*max {
                    let l = self.poll_once(fresh);
                    fresh = false;
                    if l != Last::Item {
                        break;
                    }
                }
            }
            Op::Drive { max } => {
                for i in 0..*max {
                    let woken = F.with(|f| f.task_woken.get());
                    if i > 0 && !(self.last == Last::Item || (self.last == Last::Pending && woken)) {
                        break;
                    }
                    if self.poll_once(false) == Last::None {
                        break;
                    }
                }
            }
            Op::Ready { sel, delay } => {
                if with(|w| w.frozen) {
                    return;
                }
                let c: Vec<u32> = with(|w| {
                    w.live_children()
                        .into_iter()
                        .filter(|&i| w.children[i as usize].kind == CKind::Fut && !w.children[i as usize].ready)
                        .collect()
                });
                if c.is_empty() {
                    return;
                }
                let id = c[pick(*sel, c.len())];
                with(|w| {
                    w.children[id as usize].ready = true;
                    w.log(0x58, id as u64);
                });
                self.wake_child(id, *delay);
            }
            Op::Feed { sel, n, delay } => {
                let c: Vec<u32> = with(|w| {
                    w.live_children()
                        .into_iter()
                        .filter(|&i| w.children[i as usize].kind == CKind::Src && !w.children[i as usize].closed)
                        .collect()
                });
                if c.is_empty() {
                    return;
                }
                let id = c[pick(*sel, c.len())];
                with(|w| {
                    let ch = &mut w.children[id as usize];
                    if ch.avail != INF {
                        ch.avail = ch.avail.saturating_add(*n as u32).min(1 << 20);
                    }
                    w.log(0x59, id as u64);
                });
                self.wake_child(id, *delay);
            }
            Op::Close { sel, delay } => {
                let c: Vec<u32> = with(|w| {
                    w.live_children()
                        .into_iter()
                        .filter(|&i| w.children[i as usize].kind == CKind::Src && !w.children[i as usize].closed)
                        .collect()
                });
                if c.is_empty() {
                    return;
                }
                let id = c[pick(*sel, c.len())];
                with(|w| {
                    let promise = w.src_promise;
                    let ch = &mut w.children[id as usize];
                    ch.closed = true;
                    if ch.avail == INF {
                        ch.avail = 0;
                    }
                    if promise && ch.avail == 0 {
                        // it has been reporting "at least one more": keep the promise
                        ch.avail = 1;
                    }
                    w.log(0x5a, id as u64);
                });
                self.wake_child(id, *delay);
            }
            Op::Wake { sel, how, times } => self.wake_op(*sel, *how, *times),
            Op::Deliver { sel } => self.deliver(*sel),
            Op::CloneW { sel } => self.clone_op(*sel),
            Op::DropW { sel } => self.drop_op(*sel),
            Op::Stale { sel, how } => self.stale_op(*sel, *how),
            Op::Release { n, delay } => self.release(*n, *delay),
            Op::Relocate => self.relocate(),
            Op::Cancel => self.cancel(),
            Op::PollAfterReady => self.poll_after_ready(),
            Op::Freeze => self.freeze(false),
            Op::FreezeFresh => self.freeze(true),
            Op::Quiesce => self.quiesce(),
        }
    }

    fn drain_wakers(&mut self) {
        loop {
            let n = with(|w| {
                let mut v: Vec<Waker> = vec![];
                for c in w.children.iter_mut() {
                    if let Some(s) = c.stored.take() {
                        v.push(s);
                    }
                }
                v.extend(w.wakers.drain(..).map(|h| h.waker));
                v.extend(w.owed.drain(..).map(|h| h.waker));
                if let Some(s) = w.up.stored.take() {
                    v.push(s);
                }
                // dropped one at a time from the trash: the rest stays visible to the probes
                w.trash.extend(v);
                w.trash.len()
            });
            if n == 0 {
                break;
            }
            if let Err(p) = empty_trash() {
                self.handle_panic(p, "waker drop");
                return;
            }
        }
    }

    fn finish(&mut self) {
        // A child polled again and again without any notification means the ready queue is
        // corrupted (e.g. a node linked twice); draining such a queue on drop may never end. The
        // run has its verdict: leak the subject rather than hang on its destructor.
        let corrupt = with(|w| {
            w.violations.iter().any(|v| {
                matches!(
                    v.oracle.as_str(),
                    "unjustified-poll" | "busy-spin" | "no-fixpoint" | "unbounded-work-in-one-poll" | "too-much-work-in-one-poll" | "polled-after-completion"
                )
            })
        });
        if !self.dead && corrupt {
            self.abort("ready queue may be corrupted; subject leaked instead of dropped".to_string());
        }
        if !self.dead {
            if self.cfg.wakers_first {
                self.drain_wakers();
            }
            if !self.dead {
                if let Some(s) = self.subj.take() {
                    self.drop_subject(s);
                }
            }
            if !self.dead {
                self.drain_wakers();
            }
        }
        if !self.dead {
            // final audits: everything is gone now
            let kind = self.kind();
            let ctx = kind.name();
            let (kids, outs, garbage, missed_err): (Vec<u32>, Vec<u32>, u64, u64) = with(|w| {
                let k = (0..w.children.len() as u32)
                    .filter(|&i| w.children[i as usize].drops != 1 && !w.children[i as usize].nodrop)
                    .collect();
                let o = (0..w.toks.len() as u32)
                    .filter(|&i| w.toks[i as usize].drops != 1 && !w.toks[i as usize].nodrop)
                    .collect();
                let me = w
                    .toks
                    .iter()
                    .filter(|t| t.kind == K_UPERR && !t.handed_out)
                    .count() as u64;
                (k, o, w.garbage_tok_drops, me)
            });
            if let Some(&c) = kids.first() {
                let d = with(|w| w.children[c as usize].drops);
                if d == 0 {
                    self.violate("C06", "child-leak", format!("{}: child {} (and {} more) never dropped", ctx, c, kids.len() - 1));
                }
            }
            if let Some(&t) = outs.first() {
                let (d, c) = with(|w| (w.toks[t as usize].drops, w.toks[t as usize].child));
                if d == 0 {
                    self.violate(
                        "C06",
                        "output-leak",
                        format!("{}: output of child {} (and {} more) never dropped", ctx, c as i64, outs.len() - 1),
                    );
                }
            }
            let (zc, zd) = with(|w| (w.zst_created, w.zst_dropped));
            if zd < zc {
                self.violate(
                    "C06",
                    "output-leak",
                    format!("{}: {} zero-sized outputs (with a destructor) produced inside were never dropped", ctx, zc - zd),
                );
            } else if zd > zc {
                self.violate(
                    "C06",
                    "output-double-drop",
                    format!("{}: {} zero-sized outputs produced, {} dropped", ctx, zc, zd),
                );
            }
            if garbage > 0 {
                self.violate("C07", "garbage-output", format!("{}: {} values that no child produced were dropped", ctx, garbage));
            }
            if missed_err > 0 {
                self.violate("C10", "upstream-error-lost", format!("{}: {} upstream errors were never forwarded", ctx, missed_err));
            }
            let mut perr = vec![];
            probes::end_audit(&mut perr);
            for (c, d) in perr {
                self.violate("C03", c, d);
            }
            let out = F.with(|f| f.task_outstanding.get());
            if out != 0 {
                self.violate(
                    "C03",
                    "task-waker-imbalance",
                    format!("{}: {} task-waker references unaccounted for after everything was dropped", ctx, out),
                );
            }
            let rep = crate::alloc::end_run(true);
            for e in rep.errors {
                let cl = if e.starts_with("double-free") {
                    "double-free"
                } else if e.starts_with("write-after-free") {
                    "write-after-free"
                } else {
                    "dealloc-layout-mismatch"
                };
                self.violate("C03", cl, format!("{}: {}", ctx, e));
            }
            if !rep.leaked.is_empty() {
                self.violate(
                    "C06",
                    "memory-leak",
                    format!("{}: {} heap blocks allocated by the crate were never released (sizes {:?})", ctx, rep.leaked.len(), &rep.leaked[..rep.leaked.len().min(4)]),
                );
            }
        } else {
            let _ = crate::alloc::end_run(false);
        }
    }
}

/// Execute one run. Everything the run decides comes from `(cfg, trace)`.
///
/// C15 says a refused push leaves the collection undisturbed. That is decided by a
/// counterfactual: if the run misbehaves (loses, reorders, invents or leaks something) and the
/// same trace without its refused pushes does not, the refusal disturbed the collection.
pub fn run(cfg: &Config, trace: &[Op]) -> RunResult {
    let mut r = run_inner(cfg, trace);
    let cand: Vec<Violation> = r
        .violations
        .iter()
        .filter(|v| matches!(v.property.as_str(), "C01" | "C02" | "C04" | "C05" | "C06" | "C08" | "C11"))
        .cloned()
        .collect();
    if !cand.is_empty() && !r.refused_ops.is_empty() && r.refused_ops.iter().all(|&i| i < trace.len()) {
        let t2: Vec<Op> = trace
            .iter()
            .enumerate()
            .filter(|(i, _)| !r.refused_ops.contains(i))
            .map(|(_, o)| o.clone())
            .collect();
        let r2 = run_inner(cfg, &t2);
        for v in cand {
            if !r2.violations.iter().any(|w| w.property == v.property && w.oracle == v.oracle) {
                r.violations.push(Violation {
                    property: "C15".to_string(),
                    oracle: "disturbed-by-refused-push".to_string(),
                    detail: format!("{} [{}/{}]; the same history without its refused pushes behaves correctly", v.detail, v.property, v.oracle),
                    op_index: v.op_index,
                });
                break;
            }
        }
    }
    r
}

// ---------------------------------------------------------------------------------------------
// Watchdog: a run that does not come back is stuck inside the crate (a loop that polls nothing,
// e.g. a corrupted queue being drained). It is reported like a crash, with the run seed.

use std::sync::atomic::{AtomicU64, AtomicUsize, Ordering as AO};
static WATCH: [(AtomicU64, AtomicU64); 64] = {
    #[allow(clippy::declare_interior_mutable_const)]
    const Z: (AtomicU64, AtomicU64) = (AtomicU64::new(0), AtomicU64::new(0));
    [Z; 64]
};
static NEXT_SLOT: AtomicUsize = AtomicUsize::new(0);
/// what the stuck run had found and was doing, for the watchdog's report
static NOTES: std::sync::Mutex<Vec<(usize, String)>> = std::sync::Mutex::new(Vec::new());
pub fn watch_note(note: String) {
    let slot = SLOT.with(|s| *s);
    if let Ok(mut n) = NOTES.lock() {
        n.retain(|(s, _)| *s != slot);
        n.push((slot, note));
    }
}
static T0: std::sync::OnceLock<std::time::Instant> = std::sync::OnceLock::new();
thread_local! {
    static SLOT: usize = NEXT_SLOT.fetch_add(1, AO::Relaxed) % 64;
}
fn watch(begin: bool) {
    let slot = SLOT.with(|s| *s);
    if begin {
        let t = T0.get_or_init(std::time::Instant::now).elapsed().as_millis() as u64 + 1;
        WATCH[slot].1.store(F.with(|f| f.cur_run_seed.get()), AO::Relaxed);
        WATCH[slot].0.store(t, AO::Relaxed);
    } else {
        WATCH[slot].0.store(0, AO::Relaxed);
    }
}
pub fn start_watchdog(limit_ms: u64) {
    T0.get_or_init(std::time::Instant::now);
    std::thread::spawn(move || loop {
        std::thread::sleep(std::time::Duration::from_millis(500));
        let now = T0.get().unwrap().elapsed().as_millis() as u64 + 1;
        for (slot, w) in WATCH.iter().enumerate() {
            let t = w.0.load(AO::Relaxed);
            if t != 0 && now > t + limit_ms {
                if let Ok(n) = NOTES.lock() {
                    for (s, note) in n.iter() {
                        if *s == slot {
                            println!("HANG-CONTEXT {}", note);
                        }
                    }
                }
                println!(
                    "\nHANG run_seed={} (a call into the crate did not return within {} ms)",
                    w.1.load(AO::Relaxed),
                    limit_ms
                );
                std::process::exit(4);
            }
        }
    });
}

fn run_inner(cfg: &Config, trace: &[Op]) -> RunResult {
    watch(true);
    watch_note(format!(
        "subject={} workload={} ops={} (stuck while interpreting the trace, before the final drop)",
        cfg.subject.name(),
        cfg.workload,
        trace.len()
    ));
    let r = run_inner2(cfg, trace);
    watch(false);
    r
}

fn run_inner2(cfg: &Config, trace: &[Op]) -> RunResult {
    flags::reset_flags();
    probes::reset();
    let _ = crate::alloc::end_run(true);
    WORLD.with(|w| {
        let old = std::mem::replace(&mut *w.borrow_mut(), World::new());
        // a previous aborted run may have left wakers behind: never run their destructors
        let World { children, wakers, owed, trash, up, .. } = old;
        for mut c in children {
            if let Some(s) = c.stored.take() {
                std::mem::forget(s);
            }
        }
        for h in wakers.into_iter().chain(owed) {
            std::mem::forget(h.waker);
        }
        for t in trash {
            std::mem::forget(t);
        }
        if let Some(s) = up.stored {
            std::mem::forget(s);
        }
    });
    let class = cfg.subject.class();
    with(|w| {
        let big = cfg.shape & 8 != 0 && matches!(class, Class::Collection) || (cfg.shape & 8 != 0 && cfg.subject == SubjectKind::JA);
        w.nd_children = cfg.shape & 1 != 0 && !big;
        w.raw_outputs = cfg.shape & 2 != 0 && cfg.shape & 4 == 0 && cfg.subject != SubjectKind::FEC && !big;
        w.inexact_iter = cfg.inexact_iter;
        w.ordered_adapter = matches!(cfg.subject, SubjectKind::BO | SubjectKind::TBO);
        w.src_hints = cfg.src_hints;
        w.wake_in_drop = cfg.wake_in_drop;
        w.src_promise = cfg.src_promise && cfg.src_hints;
        w.limit = cfg.cap;
        w.up.script = cfg.upstream.clone();
        w.up.released = cfg.up_released.min(cfg.upstream.len());
        w.up.lo_slack = cfg.up_lo_slack;
        w.up.hi_slack = cfg.up_hi_slack;
        w.log(0x01, cfg.subject as u64);
        w.log(0x02, cfg.cap as u64);
    });
    if let Some((n, r1)) = cfg.zst_children {
        crate::zst::smoke(n as usize, r1 as usize, cfg.cap);
        flags::F.with(|f| {
            f.cur_task.set(0);
            f.task_woken.set(false);
            f.task_wakes_total.set(0);
            f.task_wakes_in_poll.set(0);
            f.unbracketed_task_wakes.set(0);
            f.stale_task_wakes.set(0);
        });
    }
    // initial children
    let needs_initial = cfg.ctor == Ctor::Collect || class == Class::Join || cfg.subject == SubjectKind::MB;
    let initial: Vec<u32> = if needs_initial {
        with(|w| {
            cfg.initial
                .iter()
                .map(|&b| {
                    let id = w.new_child(if class == Class::Merge { CKind::Src } else { CKind::Fut }, b);
                    w.accept(id);
                    id
                })
                .collect()
        })
    } else {
        vec![]
    };
    let mut r = Runner {
        cfg,
        subj: None,
        class,
        queue: VecDeque::new(),
        sources: Default::default(),
        capn: if needs_initial && cfg.subject.bounded() { initial.len() } else { cfg.cap },
        done: false,
        next_task: 0,
        last: Last::None,
        allocs_ctor: 0,
        res: RunResult::default(),
        dead: false,
        relaxed: false,
        budget_hits_seen: 0,
        err_toks_seen: 0,
        vacant_pops_seen: 0,
    };
    match class {
        Class::Merge => r.sources = initial.iter().copied().collect(),
        Class::Adapter => {}
        _ => r.queue = initial.iter().copied().collect(),
    }
    match subjects::build(cfg, initial.clone()) {
        Ok(s) => r.subj = Some(s),
        Err(()) => {
            F.with(|f| {
                f.in_crate.set(0);
                f.quiet_panic.set(false);
            });
            r.res.ctor_panicked = true;
            r.violate(
                "C15",
                "constructor-panicked",
                format!("{}: constructor panicked for capacity {}", cfg.subject.name(), cfg.cap),
            );
            // the initial children were consumed by the failed constructor
            r.dead = true;
            F.with(|f| f.aborting.set(true));
        }
    }
    r.allocs_ctor = F.with(|f| f.allocs_in_crate.get());
    r.res.peak_held = held_now();
    if !r.dead {
        r.after_op();
        for (i, op) in trace.iter().enumerate() {
            with(|w| {
                w.op_index = i + 1;
                w.log(0x03, i as u64);
            });
            r.step(op);
            r.after_op();
            if r.dead {
                break;
            }
        }
        with(|w| w.op_index = trace.len() + 1);
    }
    // if the final drops never return, the watchdog can at least say what this run had found
    let found: Vec<String> = with(|w| w.violations.iter().take(3).map(|v| format!("{}/{}: {}", v.property, v.oracle, v.detail)).collect());
    watch_note(format!(
        "subject={} workload={} ops={} violations before the final drop: {:?}",
        cfg.subject.name(),
        cfg.workload,
        trace.len(),
        found
    ));
    r.finish();
    let _ = r.vacant_pops_seen;
    let _ = r.err_toks_seen;
    let mut res = r.res;
    with(|w| {
        res.violations = std::mem::take(&mut w.violations);
        res.hash = w.hash;
        res.steps = w.steps;
        res.faults = w.faults;
        res.child_polls = w.child_polls_total;
    });
    res.hits = probes::hits();
    res.waker_ops = probes::waker_ops();
    res.blocks = probes::block_count();
    res.stale_task_wakes = F.with(|f| f.stale_task_wakes.get());
    let faults: u64 = res.faults.iter().sum();
    res.nontrivial = res.polls_with_held > 0 && faults > 0;
    F.with(|f| f.aborting.set(false));
    res
}
