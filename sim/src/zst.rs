//! Zero-sized *future* and *stream* types. Such a child cannot carry an identity, so it cannot take
//! part in the identity-based model of the main simulator; this module drives every collection and
//! combinator with them against a count-only model: nothing panics (C15), `len`/`is_empty` follow the
//! counts (C15), exactly as many outputs come out as children were given and `None` comes exactly
//! at the end (C02 / C10 / C11), and every child is dropped exactly once (C06).
//!
//! A run of the main simulator does this first when its configuration says so (`zst_children`).

use crate::flags;
use crate::world::with;
use futures_buffered::{
    join_all, try_join_all, BufferedStreamExt, BufferedTryStreamExt, FuturesOrdered, FuturesOrderedBounded, FuturesUnordered,
    FuturesUnorderedBounded, MergeBounded, MergeUnbounded,
};
use futures_core::Stream;
use std::cell::RefCell;
use std::future::Future;
use std::panic::{catch_unwind, AssertUnwindSafe};
use std::pin::Pin;
use std::task::{Context, Poll, Waker};

#[derive(Default)]
struct ZState {
    /// how many more polls answer Ready / yield an item
    budget: usize,
    created: u64,
    dropped: u64,
    polls: u64,
    wakers: Vec<Waker>,
    /// streams: how many streams have already ended (each stream yields one item, then ends)
    yielded: u64,
}

thread_local! {
    static Z: RefCell<ZState> = RefCell::new(ZState::default());
}

fn z<R>(f: impl FnOnce(&mut ZState) -> R) -> R {
    // bookkeeping of the environment: its allocations are not the crate's
    flags::in_world(|| Z.with(|s| f(&mut s.borrow_mut())))
}

/// Zero-sized future with a destructor.
pub struct ZFut;
impl ZFut {
    fn new() -> ZFut {
        z(|s| s.created += 1);
        ZFut
    }
}
impl Future for ZFut {
    type Output = ();
    fn poll(self: Pin<&mut Self>, cx: &mut Context<'_>) -> Poll<()> {
        let w = cx.waker().clone();
        z(|s| {
            s.polls += 1;
            if s.budget > 0 {
                s.budget -= 1;
                Poll::Ready(())
            } else {
                s.wakers.push(w);
                Poll::Pending
            }
        })
    }
}
impl Drop for ZFut {
    fn drop(&mut self) {
        z(|s| s.dropped += 1);
    }
}

/// The same with a `Result` output (for the try combinators); never fails.
pub struct ZTryFut(ZFut);
impl Future for ZTryFut {
    type Output = Result<(), ()>;
    fn poll(self: Pin<&mut Self>, cx: &mut Context<'_>) -> Poll<Result<(), ()>> {
        // SAFETY: structural projection to the only field
        unsafe { self.map_unchecked_mut(|s| &mut s.0) }.poll(cx).map(Ok)
    }
}

/// Zero-sized stream with a destructor: while there is budget it yields one item per poll; it ends
/// when the environment says so (`ending`).
pub struct ZSrc;
thread_local! {
    static ENDING: std::cell::Cell<bool> = const { std::cell::Cell::new(false) };
}
impl ZSrc {
    fn new() -> ZSrc {
        z(|s| s.created += 1);
        ZSrc
    }
}
impl Stream for ZSrc {
    type Item = ();
    fn poll_next(self: Pin<&mut Self>, cx: &mut Context<'_>) -> Poll<Option<()>> {
        let w = cx.waker().clone();
        let ending = ENDING.with(|e| e.get());
        z(|s| {
            s.polls += 1;
            if s.budget > 0 {
                s.budget -= 1;
                s.yielded += 1;
                Poll::Ready(Some(()))
            } else if ending {
                Poll::Ready(None)
            } else {
                s.wakers.push(w);
                Poll::Pending
            }
        })
    }
}
impl Drop for ZSrc {
    fn drop(&mut self) {
        z(|s| s.dropped += 1);
    }
}

/// Upstream of `n` zero-sized futures (itself not zero-sized).
struct ZUp<F> {
    left: usize,
    mk: fn() -> F,
}
impl<F> Stream for ZUp<F> {
    type Item = F;
    fn poll_next(mut self: Pin<&mut Self>, _cx: &mut Context<'_>) -> Poll<Option<F>> {
        if self.left == 0 {
            Poll::Ready(None)
        } else {
            self.left -= 1;
            Poll::Ready(Some((self.mk)()))
        }
    }
    fn size_hint(&self) -> (usize, Option<usize>) {
        (self.left, Some(self.left))
    }
}
impl<F> Unpin for ZUp<F> {}

fn wake_all() {
    let ws = z(|s| std::mem::take(&mut s.wakers));
    for w in ws {
        w.wake();
    }
}

/// What one phase of polling saw.
struct Seen {
    items: usize,
    ended: bool,
}

/// Poll a stream until it answers Pending or None (at most `cap` polls).
fn drain<S: Stream + ?Sized>(mut s: Pin<&mut S>, cap: usize) -> Seen {
    let tw = flags::task_waker(9_000_001);
    let mut cx = Context::from_waker(&tw);
    let mut seen = Seen { items: 0, ended: false };
    for _ in 0..cap {
        match s.as_mut().poll_next(&mut cx) {
            Poll::Ready(Some(_)) => seen.items += 1,
            Poll::Ready(None) => {
                seen.ended = true;
                break;
            }
            Poll::Pending => {
                // an early stop has woken the task: go on, like an executor would
                if flags::F.with(|f| f.task_woken.replace(false)) {
                    continue;
                }
                break;
            }
        }
    }
    seen
}

fn report(what: &str, prop: &str, oracle: &str, detail: String) {
    flags::in_world(|| with(|w| w.violate(prop, oracle, format!("{} of zero-sized children: {}", what, detail))));
}

/// Two phases: `r1` children finish, then the rest; the stream must yield `r1`, stay Pending, yield
/// the rest and end.
fn two_phase<S: Stream + ?Sized>(what: &str, prop: &str, s: Pin<&mut S>, n: usize, r1: usize) {
    two_phase_o(what, prop, s, n, r1, false)
}

/// `ordered`: the finished children of the first phase need not be at the head of the queue, so
/// only the total is known.
fn two_phase_o<S: Stream + ?Sized>(what: &str, prop: &str, mut s: Pin<&mut S>, n: usize, r1: usize, ordered: bool) {
    flags::F.with(|f| {
        f.cur_task.set(9_000_001);
        f.task_woken.set(false);
    });
    z(|s| s.budget = r1);
    let a = drain(s.as_mut(), 4 * n + 70);
    if (if ordered { a.items > r1 } else { a.items != r1 }) || (a.ended && r1 < n) {
        report(what, prop, "zero-sized-children", format!("{} of {} finished: {} outputs, ended = {}", r1, n, a.items, a.ended));
        return;
    }
    if r1 < n {
        z(|s| s.budget = n - r1);
        wake_all();
        let b = drain(s.as_mut(), 4 * n + 70);
        if a.items + b.items != n {
            report(what, prop, "zero-sized-children", format!("the remaining {} finished: {} + {} outputs for {} children", n - r1, a.items, b.items, n));
            return;
        }
        if !b.ended {
            let c = drain(s.as_mut(), 4);
            if !c.ended || c.items != 0 {
                report(what, prop, "zero-sized-children", "no None after the last output".to_string());
            }
        }
    } else if !a.ended {
        let c = drain(s.as_mut(), 4);
        if !c.ended || c.items != 0 {
            report(what, prop, "zero-sized-children", "no None after the last output".to_string());
        }
    }
}

fn obs(what: &str, len: usize, is_empty: bool, n: usize) {
    if len != n || is_empty != (n == 0) {
        report(what, "C15", "zero-sized-children", format!("len() = {}, is_empty() = {} with {} held", len, is_empty, n));
    }
}

fn guarded(what: &'static str, f: impl FnOnce()) {
    z(|s| *s = ZState::default());
    ENDING.with(|e| e.set(false));
    flags::F.with(|f| f.quiet_panic.set(true));
    let r = catch_unwind(AssertUnwindSafe(|| flags::in_crate(f)));
    flags::F.with(|f| {
        f.quiet_panic.set(false);
    });
    if r.is_err() {
        // leave whatever is left alone
        z(|s| {
            for w in s.wakers.drain(..) {
                std::mem::forget(w);
            }
        });
        report(what, "C15", "zero-sized-children-panic", "the crate panicked".to_string());
        return;
    }
    wake_all(); // stale wakers of finished children: must be harmless
    let (c, d) = z(|s| (s.created, s.dropped));
    if c != d {
        report(what, "C06", "zero-sized-children", format!("{} children created, {} dropped", c, d));
    }
}

/// Drive everything with `n` zero-sized children, `r1` of which finish in the first phase.
pub fn smoke(n: usize, r1: usize, limit: usize) {
    let r1 = r1.min(n);
    let limit = limit.max(1);
    guarded("FuturesUnorderedBounded::new", || {
        let mut q = FuturesUnorderedBounded::new(n);
        for _ in 0..n {
            q.push(ZFut::new());
        }
        obs("FuturesUnorderedBounded::new", q.len(), q.is_empty(), n);
        two_phase("FuturesUnorderedBounded::new", "C02", Pin::new(&mut q), n, r1);
    });
    guarded("FuturesUnorderedBounded::from_iter", || {
        let mut q: FuturesUnorderedBounded<ZFut> = (0..n).map(|_| ZFut::new()).collect();
        obs("FuturesUnorderedBounded::from_iter", q.len(), q.is_empty(), n);
        two_phase("FuturesUnorderedBounded::from_iter", "C02", Pin::new(&mut q), n, r1);
    });
    guarded("FuturesUnordered::new", || {
        let mut q = FuturesUnordered::new();
        for _ in 0..n {
            q.push(ZFut::new());
        }
        obs("FuturesUnordered::new", q.len(), q.is_empty(), n);
        two_phase("FuturesUnordered::new", "C02", Pin::new(&mut q), n, r1);
    });
    guarded("FuturesUnordered::with_capacity", || {
        let mut q = FuturesUnordered::with_capacity(limit);
        for _ in 0..n {
            q.push(ZFut::new());
        }
        obs("FuturesUnordered::with_capacity", q.len(), q.is_empty(), n);
        two_phase("FuturesUnordered::with_capacity", "C02", Pin::new(&mut q), n, r1);
    });
    guarded("FuturesUnordered::from_iter", || {
        let mut q: FuturesUnordered<ZFut> = (0..n).map(|_| ZFut::new()).filter(|_| true).collect();
        obs("FuturesUnordered::from_iter", q.len(), q.is_empty(), n);
        two_phase("FuturesUnordered::from_iter", "C02", Pin::new(&mut q), n, r1);
    });
    guarded("FuturesOrderedBounded", || {
        let mut q = FuturesOrderedBounded::new(n);
        for i in 0..n {
            if i % 3 == 0 {
                q.push_front(ZFut::new());
            } else {
                q.push_back(ZFut::new());
            }
        }
        obs("FuturesOrderedBounded", q.len(), q.is_empty(), n);
        two_phase_o("FuturesOrderedBounded", "C02", Pin::new(&mut q), n, r1, true);
    });
    guarded("FuturesOrdered", || {
        let mut q = FuturesOrdered::new();
        for i in 0..n {
            if i % 3 == 0 {
                q.push_front(ZFut::new());
            } else {
                q.push_back(ZFut::new());
            }
        }
        obs("FuturesOrdered", q.len(), q.is_empty(), n);
        two_phase_o("FuturesOrdered", "C02", Pin::new(&mut q), n, r1, true);
    });
    guarded("FuturesOrdered::from_iter", || {
        let mut q: FuturesOrdered<ZFut> = (0..n).map(|_| ZFut::new()).collect();
        obs("FuturesOrdered::from_iter", q.len(), q.is_empty(), n);
        two_phase_o("FuturesOrdered::from_iter", "C02", Pin::new(&mut q), n, r1, true);
    });
    guarded("buffered_unordered", || {
        let mut s = Box::pin(ZUp { left: n, mk: ZFut::new as fn() -> ZFut }.buffered_unordered(limit));
        // the limit decides how many are pulled: finish everything in waves
        waves("buffered_unordered", s.as_mut(), n);
    });
    guarded("buffered_ordered", || {
        let mut s = Box::pin(ZUp { left: n, mk: ZFut::new as fn() -> ZFut }.buffered_ordered(limit));
        waves("buffered_ordered", s.as_mut(), n);
    });
    guarded("try_buffered_unordered", || {
        fn mk() -> Result<ZTryFut, ()> {
            Ok(ZTryFut(ZFut::new()))
        }
        let mut s = Box::pin(ZUp { left: n, mk: mk as fn() -> Result<ZTryFut, ()> }.try_buffered_unordered(limit));
        waves("try_buffered_unordered", s.as_mut(), n);
    });
    guarded("try_buffered_ordered", || {
        fn mk() -> Result<ZTryFut, ()> {
            Ok(ZTryFut(ZFut::new()))
        }
        let mut s = Box::pin(ZUp { left: n, mk: mk as fn() -> Result<ZTryFut, ()> }.try_buffered_ordered(limit));
        waves("try_buffered_ordered", s.as_mut(), n);
    });
    guarded("for_each_concurrent", || {
        let mut f = Box::pin(ZUp { left: n, mk: (|| ()) as fn() -> () }.for_each_concurrent(limit, |()| ZFut::new()));
        let tw = flags::task_waker(9_000_002);
        let mut cx = Context::from_waker(&tw);
        let mut done = false;
        for _ in 0..(4 * n + 70) {
            z(|s| s.budget = usize::MAX / 2);
            wake_all();
            if f.as_mut().poll(&mut cx).is_ready() {
                done = true;
                break;
            }
        }
        if !done {
            report("for_each_concurrent", "C10", "zero-sized-children", "did not complete although every future finishes at once".to_string());
        }
        let c = z(|s| s.created);
        if done && c != n as u64 {
            report("for_each_concurrent", "C10", "zero-sized-children", format!("{} futures made for {} items", c, n));
        }
    });
    guarded("join_all", || {
        let mut j = Box::pin(join_all((0..n).map(|_| ZFut::new())));
        let tw = flags::task_waker(9_000_003);
        let mut cx = Context::from_waker(&tw);
        z(|s| s.budget = r1);
        let first = j.as_mut().poll(&mut cx);
        if r1 < n {
            if first.is_ready() {
                report("join_all", "C07", "zero-sized-children", format!("resolved with {} of {} inputs finished", r1, n));
                return;
            }
            z(|s| s.budget = n - r1);
            wake_all();
        }
        let mut out = first;
        for _ in 0..(n / 32 + 8) {
            if out.is_ready() {
                break;
            }
            out = j.as_mut().poll(&mut cx);
        }
        match out {
            Poll::Ready(v) if v.len() == n => {}
            Poll::Ready(v) => report("join_all", "C07", "zero-sized-children", format!("{} outputs for {} inputs", v.len(), n)),
            Poll::Pending => report("join_all", "C07", "zero-sized-children", "still pending after every input finished".to_string()),
        }
    });
    guarded("try_join_all", || {
        let mut j = Box::pin(try_join_all((0..n).map(|_| ZTryFut(ZFut::new()))));
        let tw = flags::task_waker(9_000_004);
        let mut cx = Context::from_waker(&tw);
        z(|s| s.budget = usize::MAX / 2);
        let mut out = j.as_mut().poll(&mut cx);
        for _ in 0..(n / 32 + 8) {
            if out.is_ready() {
                break;
            }
            wake_all();
            out = j.as_mut().poll(&mut cx);
        }
        match out {
            Poll::Ready(Ok(v)) if v.len() == n => {}
            Poll::Ready(Ok(v)) => report("try_join_all", "C07", "zero-sized-children", format!("{} outputs for {} inputs", v.len(), n)),
            Poll::Ready(Err(())) => report("try_join_all", "C07", "zero-sized-children", "an error nobody produced".to_string()),
            Poll::Pending => report("try_join_all", "C07", "zero-sized-children", "still pending after every input finished".to_string()),
        }
    });
    guarded("MergeBounded", || {
        let mut m: MergeBounded<ZSrc> = (0..n).map(|_| ZSrc::new()).collect();
        merge_phases("MergeBounded", Pin::new(&mut m), n, r1);
    });
    guarded("MergeUnbounded", || {
        let mut m = MergeUnbounded::new();
        for _ in 0..n {
            m.push(ZSrc::new());
        }
        if m.len() != n || m.is_empty() != (n == 0) {
            report("MergeUnbounded", "C15", "zero-sized-children", format!("len() = {} with {} sources", m.len(), n));
        }
        merge_phases("MergeUnbounded", Pin::new(&mut m), n, r1);
    });
    z(|s| *s = ZState::default());
}

/// Adapters: everything finishes as soon as it is polled; all `n` outputs and then None.
fn waves<S: Stream + ?Sized>(what: &str, mut s: Pin<&mut S>, n: usize) {
    flags::F.with(|f| {
        f.cur_task.set(9_000_001);
        f.task_woken.set(false);
    });
    z(|s| s.budget = usize::MAX / 2);
    let a = drain(s.as_mut(), 4 * n + 70);
    if a.items != n || !a.ended {
        let b = if a.ended { Seen { items: 0, ended: true } } else { drain(s.as_mut(), 4) };
        if a.items + b.items != n || !(a.ended || b.ended) {
            report(what, "C10", "zero-sized-children", format!("{} outputs for {} upstream items, ended = {}", a.items + b.items, n, a.ended || b.ended));
        }
    }
}

/// Merges: `k` items come out while the sources are open, then every source ends.
fn merge_phases<S: Stream + ?Sized>(what: &str, mut s: Pin<&mut S>, n: usize, k: usize) {
    flags::F.with(|f| {
        f.cur_task.set(9_000_001);
        f.task_woken.set(false);
    });
    let k = if n == 0 { 0 } else { k };
    z(|s| s.budget = k);
    let a = drain(s.as_mut(), 4 * (n + k) + 70);
    if a.items != k || (a.ended && n > 0) {
        report(what, "C11", "zero-sized-children", format!("{} items available from {} open sources: {} yielded, ended = {}", k, n, a.items, a.ended));
        return;
    }
    ENDING.with(|e| e.set(true));
    wake_all();
    let b = drain(s.as_mut(), 4 * n + 70);
    let ended = b.ended || drain(s.as_mut(), 4).ended;
    if b.items != 0 || !ended {
        report(what, "C11", "zero-sized-children", format!("every source ended: {} more items, None = {}", b.items, ended));
    }
}
