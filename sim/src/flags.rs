//! Cell-only thread-local state that may be touched re-entrantly (from waker vtables, from the
//! allocator, from drop glue running inside the crate). Nothing in here borrows.

use std::cell::Cell;
use std::task::{RawWaker, RawWakerVTable, Waker};

pub struct Flags {
    /// > 0 while control is inside the crate under test (allocations are attributed to it).
    pub in_crate: Cell<u32>,
    /// > 0 while harness bookkeeping runs (allocations are not attributed to the crate).
    pub in_world: Cell<u32>,
    pub in_subject_poll: Cell<bool>,
    /// A harness-initiated invocation of a child waker (or of the upstream's waker) is running.
    pub in_bracket: Cell<bool>,
    /// Id of the task waker given to the most recent subject poll.
    pub cur_task: Cell<usize>,
    /// The task waker of the most recent poll was invoked since that poll began.
    pub task_woken: Cell<bool>,
    pub task_wakes_total: Cell<u64>,
    pub task_wakes_in_poll: Cell<u64>,
    /// Task-waker invocations outside a subject poll and outside a bracket (C14).
    pub unbracketed_task_wakes: Cell<u64>,
    pub stale_task_wakes: Cell<u64>,
    /// clones - drops of all task wakers (harness-created handles count as clones).
    pub task_outstanding: Cell<i64>,
    pub task_clones: Cell<u64>,
    /// allocations attributed to the crate
    pub allocs_in_crate: Cell<u64>,
    pub bytes_in_crate: Cell<u64>,
    /// silence the panic hook (expected panic in progress)
    pub quiet_panic: Cell<bool>,
    /// the run is being aborted (fatal violation); vtables and drops become inert
    pub aborting: Cell<bool>,
    /// current run identity for the crash handler
    pub cur_run_seed: Cell<u64>,
}

thread_local! {
    pub static F: Flags = const { Flags {
        in_crate: Cell::new(0),
        in_world: Cell::new(0),
        in_subject_poll: Cell::new(false),
        in_bracket: Cell::new(false),
        cur_task: Cell::new(0),
        task_woken: Cell::new(false),
        task_wakes_total: Cell::new(0),
        task_wakes_in_poll: Cell::new(0),
        unbracketed_task_wakes: Cell::new(0),
        stale_task_wakes: Cell::new(0),
        task_outstanding: Cell::new(0),
        task_clones: Cell::new(0),
        allocs_in_crate: Cell::new(0),
        bytes_in_crate: Cell::new(0),
        quiet_panic: Cell::new(false),
        aborting: Cell::new(false),
        cur_run_seed: Cell::new(0),
    } };
}

pub fn reset_flags() {
    F.with(|f| {
        f.in_crate.set(0);
        f.in_world.set(0);
        f.in_subject_poll.set(false);
        f.in_bracket.set(false);
        f.cur_task.set(0);
        f.task_woken.set(false);
        f.task_wakes_total.set(0);
        f.task_wakes_in_poll.set(0);
        f.unbracketed_task_wakes.set(0);
        f.stale_task_wakes.set(0);
        f.task_outstanding.set(0);
        f.task_clones.set(0);
        f.allocs_in_crate.set(0);
        f.bytes_in_crate.set(0);
        f.quiet_panic.set(false);
        f.aborting.set(false);
    });
}

/// Run `f` as crate code (allocations inside are attributed to the crate).
pub fn in_crate<R>(f: impl FnOnce() -> R) -> R {
    struct G;
    impl Drop for G {
        fn drop(&mut self) {
            F.with(|f| f.in_crate.set(f.in_crate.get() - 1));
        }
    }
    F.with(|f| f.in_crate.set(f.in_crate.get() + 1));
    let _g = G;
    f()
}

/// Run `f` as harness code even if we are nested inside a crate call.
pub fn in_world<R>(f: impl FnOnce() -> R) -> R {
    struct G;
    impl Drop for G {
        fn drop(&mut self) {
            F.with(|f| f.in_world.set(f.in_world.get() - 1));
        }
    }
    F.with(|f| f.in_world.set(f.in_world.get() + 1));
    let _g = G;
    f()
}

// ---------------------------------------------------------------------------------------------
// Task wakers: allocation-free counting wakers. data = task id.

static TASK_VTABLE: RawWakerVTable = RawWakerVTable::new(t_clone, t_wake, t_wake_by_ref, t_drop);

unsafe fn t_clone(p: *const ()) -> RawWaker {
    F.with(|f| {
        f.task_outstanding.set(f.task_outstanding.get() + 1);
        f.task_clones.set(f.task_clones.get() + 1);
    });
    RawWaker::new(p, &TASK_VTABLE)
}
unsafe fn t_wake(p: *const ()) {
    t_wake_by_ref(p);
    t_drop(p);
}
unsafe fn t_wake_by_ref(p: *const ()) {
    let id = p as usize;
    F.with(|f| {
        f.task_wakes_total.set(f.task_wakes_total.get() + 1);
        if id == f.cur_task.get() {
            f.task_woken.set(true);
        } else {
            f.stale_task_wakes.set(f.stale_task_wakes.get() + 1);
        }
        if f.in_subject_poll.get() {
            f.task_wakes_in_poll.set(f.task_wakes_in_poll.get() + 1);
        } else if !f.in_bracket.get() {
            f.unbracketed_task_wakes
                .set(f.unbracketed_task_wakes.get() + 1);
        }
    });
}
unsafe fn t_drop(_p: *const ()) {
    F.with(|f| f.task_outstanding.set(f.task_outstanding.get() - 1));
}

/// A fresh handle to task waker `id` (counts as one outstanding reference).
pub fn task_waker(id: usize) -> Waker {
    F.with(|f| f.task_outstanding.set(f.task_outstanding.get() + 1));
    unsafe { Waker::from_raw(RawWaker::new(std::ptr::without_provenance(id), &TASK_VTABLE)) }
}
