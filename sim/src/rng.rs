//! The only source of randomness in the simulator: one xoshiro256** stream per run, seeded by
//! splitmix64 from (VERIF_SEED, run index).

#[derive(Clone, Debug)]
pub struct Rng {
    s: [u64; 4],
}

pub fn splitmix(x: &mut u64) -> u64 {
    *x = x.wrapping_add(0x9E37_79B9_7F4A_7C15);
    let mut z = *x;
    z = (z ^ (z >> 30)).wrapping_mul(0xBF58_476D_1CE4_E5B9);
    z = (z ^ (z >> 27)).wrapping_mul(0x94D0_49BB_1331_11EB);
    z ^ (z >> 31)
}

/// Per-run seed: a pure function of the batch seed and the run index.
pub fn run_seed(batch: u64, index: u64) -> u64 {
    let mut x = batch ^ index.wrapping_mul(0xD6E8_FEB8_6659_FD93);
    let a = splitmix(&mut x);
    let b = splitmix(&mut x);
    a ^ b.rotate_left(17)
}

impl Rng {
    pub fn new(seed: u64) -> Self {
        let mut x = seed;
        let s = [
            splitmix(&mut x),
            splitmix(&mut x),
            splitmix(&mut x),
            splitmix(&mut x),
        ];
        Rng { s }
    }
    pub fn next(&mut self) -> u64 {
        let r = self.s[1].wrapping_mul(5).rotate_left(7).wrapping_mul(9);
        let t = self.s[1] << 17;
        self.s[2] ^= self.s[0];
        self.s[3] ^= self.s[1];
        self.s[1] ^= self.s[2];
        self.s[0] ^= self.s[3];
        self.s[2] ^= t;
        self.s[3] = self.s[3].rotate_left(45);
        r
    }
    /// Uniform in `0..n` (n > 0).
    pub fn below(&mut self, n: u64) -> u64 {
        debug_assert!(n > 0);
        // multiply-shift; bias is irrelevant here
        ((self.next() as u128 * n as u128) >> 64) as u64
    }
    pub fn range(&mut self, lo: u64, hi_incl: u64) -> u64 {
        lo + self.below(hi_incl - lo + 1)
    }
    pub fn chance(&mut self, num: u64, den: u64) -> bool {
        self.below(den) < num
    }
    pub fn pick<T: Copy>(&mut self, xs: &[T]) -> T {
        xs[self.below(xs.len() as u64) as usize]
    }
}
