//! Minimisation of a failing `(Config, trace)`: delta debugging over the trace, per-op
//! simplification, then configuration shrinking. A candidate is accepted only if the same
//! `(property, oracle)` still fires.

use crate::ops::*;
use crate::run::run;
use crate::world::UpEntry;

pub struct Shrunk {
    pub cfg: Config,
    pub trace: Vec<Op>,
    pub runs: usize,
}

thread_local! {
    /// wall-clock limit for one minimisation (runs of big populations take a second each)
    static DEADLINE: std::cell::Cell<Option<std::time::Instant>> = const { std::cell::Cell::new(None) };
}

fn fails(cfg: &Config, trace: &[Op], prop: &str, oracle: &str, runs: &mut usize) -> bool {
    if let Some(d) = DEADLINE.with(|d| d.get()) {
        if std::time::Instant::now() > d {
            // out of time: every further candidate counts as "does not fail", which ends the search
            *runs = usize::MAX / 2;
            return false;
        }
    }
    *runs += 1;
    let r = run(cfg, trace);
    r.violations.iter().any(|v| v.property == prop && v.oracle == oracle)
}

fn simpler_beh(b: &Beh) -> Vec<Beh> {
    let mut v = vec![];
    if b.selfwake != 0 {
        v.push(Beh { selfwake: 0, ..*b });
    }
    if b.wake_on_complete {
        v.push(Beh { wake_on_complete: false, ..*b });
    }
    if b.cross.is_some() {
        v.push(Beh { cross: None, ..*b });
    }
    if b.store != 0 {
        v.push(Beh { store: 0, ..*b });
    }
    if b.fail {
        v.push(Beh { fail: false, ..*b });
    }
    if b.items == 255 {
        v.push(Beh { items: 3, ..*b });
    } else if b.items > 1 {
        v.push(Beh { items: 1, ..*b });
    }
    v
}

fn simpler_ops(op: &Op) -> Vec<Op> {
    let mut v = vec![];
    match op {
        Op::Push { beh, how } => {
            for b in simpler_beh(beh) {
                v.push(Op::Push { beh: b, how: *how });
            }
            if *how != PushHow::Back {
                v.push(Op::Push { beh: *beh, how: PushHow::Back });
            }
        }
        Op::Extend { behs } if behs.len() > 1 => v.push(Op::Extend { behs: behs[..1].to_vec() }),
        Op::PushMany { beh, n } if *n > 1 => {
            v.push(Op::PushMany { beh: *beh, n: n / 2 });
            v.push(Op::PushMany { beh: *beh, n: n - 1 });
        }
        Op::FinishOldest { n } if *n > 1 => {
            v.push(Op::FinishOldest { n: n / 2 });
            v.push(Op::FinishOldest { n: n - 1 });
        }
        Op::Poll { fresh: true } => v.push(Op::Poll { fresh: false }),
        Op::PollMany { max, fresh } => {
            v.push(Op::Poll { fresh: *fresh });
            if *max > 2 {
                v.push(Op::PollMany { max: max / 2, fresh: *fresh });
            }
            if *fresh {
                v.push(Op::PollMany { max: *max, fresh: false });
            }
        }
        Op::Drive { max } => {
            v.push(Op::Poll { fresh: false });
            if *max > 2 {
                v.push(Op::Drive { max: max / 2 });
            }
        }
        Op::Ready { sel, delay } => {
            if *delay {
                v.push(Op::Ready { sel: *sel, delay: false });
            }
            if *sel != 0 {
                v.push(Op::Ready { sel: 0, delay: *delay });
            }
        }
        Op::Feed { sel, n, delay } => {
            if *delay {
                v.push(Op::Feed { sel: *sel, n: *n, delay: false });
            }
            if *n > 1 {
                v.push(Op::Feed { sel: *sel, n: 1, delay: *delay });
            }
            if *sel != 0 {
                v.push(Op::Feed { sel: 0, n: *n, delay: *delay });
            }
        }
        Op::Close { sel, delay } => {
            if *delay {
                v.push(Op::Close { sel: *sel, delay: false });
            }
            if *sel != 0 {
                v.push(Op::Close { sel: 0, delay: *delay });
            }
        }
        Op::Wake { sel, how, times } => {
            if *times > 1 {
                v.push(Op::Wake { sel: *sel, how: *how, times: 1 });
            }
            if *how != WakeHow::ByRef {
                v.push(Op::Wake { sel: *sel, how: WakeHow::ByRef, times: *times });
            }
            if *sel != 0 {
                v.push(Op::Wake { sel: 0, how: *how, times: *times });
            }
        }
        Op::Stale { sel, how } => {
            if *how != WakeHow::ByRef {
                v.push(Op::Stale { sel: *sel, how: WakeHow::ByRef });
            }
            if *sel != 0 {
                v.push(Op::Stale { sel: 0, how: *how });
            }
        }
        Op::Deliver { sel } if *sel != 0 => v.push(Op::Deliver { sel: 0 }),
        Op::CloneW { sel } if *sel != 0 => v.push(Op::CloneW { sel: 0 }),
        Op::DropW { sel } if *sel != 0 => v.push(Op::DropW { sel: 0 }),
        Op::Release { n, delay } => {
            if *delay {
                v.push(Op::Release { n: *n, delay: false });
            }
            if *n > 1 {
                v.push(Op::Release { n: 1, delay: *delay });
            }
        }
        Op::Quiesce => v.push(Op::Drive { max: 8 }),
        Op::FreezeFresh => v.push(Op::Freeze),
        _ => {}
    }
    v
}

pub fn shrink(cfg: &Config, trace: &[Op], prop: &str, oracle: &str, budget: usize) -> Shrunk {
    let secs = if budget <= 1500 { 40 } else { 240 };
    DEADLINE.with(|d| d.set(Some(std::time::Instant::now() + std::time::Duration::from_secs(secs))));
    let r = shrink_inner(cfg, trace, prop, oracle, budget);
    DEADLINE.with(|d| d.set(None));
    r
}

fn shrink_inner(cfg: &Config, trace: &[Op], prop: &str, oracle: &str, budget: usize) -> Shrunk {
    let mut cfg = cfg.clone();
    let mut trace = trace.to_vec();
    let mut runs = 0usize;

    // truncate after the op at which the violation was reported, when that keeps it
    {
        let r = run(&cfg, &trace);
        runs += 1;
        if let Some(v) = r.violations.iter().find(|v| v.property == prop && v.oracle == oracle) {
            if v.op_index < trace.len() {
                let t = trace[..v.op_index].to_vec();
                if fails(&cfg, &t, prop, oracle, &mut runs) {
                    trace = t;
                }
            }
        }
    }

    let mut progress = true;
    while progress && runs < budget {
        progress = false;
        // ddmin over the trace
        let mut chunk = (trace.len() / 2).max(1);
        while chunk >= 1 && !trace.is_empty() && runs < budget {
            let mut i = 0;
            let mut removed_any = false;
            while i < trace.len() && runs < budget {
                let end = (i + chunk).min(trace.len());
                let mut cand = trace[..i].to_vec();
                cand.extend_from_slice(&trace[end..]);
                if fails(&cfg, &cand, prop, oracle, &mut runs) {
                    trace = cand;
                    removed_any = true;
                    progress = true;
                } else {
                    i += chunk;
                }
            }
            if chunk == 1 && !removed_any {
                break;
            }
            chunk = if chunk == 1 { 1 } else { chunk / 2 };
            if !removed_any && chunk == 1 && trace.len() <= 1 {
                break;
            }
        }
        // configuration: population
        let mut i = 0;
        while i < cfg.initial.len() && runs < budget {
            let mut c = cfg.clone();
            c.initial.remove(i);
            if c.subject.class() == Class::Join || (c.ctor == Ctor::Collect && c.subject.bounded()) {
                c.cap = c.initial.len();
            }
            if fails(&c, &trace, prop, oracle, &mut runs) {
                cfg = c;
                progress = true;
            } else {
                i += 1;
            }
        }
        // upstream: drop a tail half, then single entries
        while !cfg.upstream.is_empty() && runs < budget {
            let mut c = cfg.clone();
            let keep = c.upstream.len() / 2;
            c.upstream.truncate(keep);
            c.up_released = c.up_released.min(keep);
            if fails(&c, &trace, prop, oracle, &mut runs) {
                cfg = c;
                progress = true;
            } else {
                break;
            }
        }
        let mut i = 0;
        while i < cfg.upstream.len() && cfg.upstream.len() <= 24 && runs < budget {
            let mut c = cfg.clone();
            c.upstream.remove(i);
            c.up_released = c.up_released.min(c.upstream.len());
            if fails(&c, &trace, prop, oracle, &mut runs) {
                cfg = c;
                progress = true;
            } else {
                i += 1;
            }
        }
        // capacity
        for cand in [1usize, 2, 3, 4, cfg.cap / 2, cfg.cap.saturating_sub(1)] {
            if cand < cfg.cap && runs < budget && !(cfg.ctor == Ctor::Collect && cfg.subject.bounded()) && cfg.subject.class() != Class::Join {
                let mut c = cfg.clone();
                c.cap = cand;
                if fails(&c, &trace, prop, oracle, &mut runs) {
                    cfg = c;
                    progress = true;
                    break;
                }
            }
        }
        // misc config
        if cfg.start_pos.is_some() && runs < budget {
            let mut c = cfg.clone();
            c.start_pos = None;
            if fails(&c, &trace, prop, oracle, &mut runs) {
                cfg = c;
                progress = true;
            }
        }
        if cfg.up_released < cfg.upstream.len() && runs < budget {
            let mut c = cfg.clone();
            c.up_released = c.upstream.len();
            if fails(&c, &trace, prop, oracle, &mut runs) {
                cfg = c;
                progress = true;
            }
        }
        if (cfg.up_lo_slack != 0 || cfg.up_hi_slack != Some(0)) && runs < budget {
            let mut c = cfg.clone();
            c.up_lo_slack = 0;
            c.up_hi_slack = Some(0);
            if fails(&c, &trace, prop, oracle, &mut runs) {
                cfg = c;
                progress = true;
            }
        }
        // behaviours in config
        for i in 0..cfg.initial.len() {
            for b in simpler_beh(&cfg.initial[i]) {
                if runs >= budget {
                    break;
                }
                let mut c = cfg.clone();
                c.initial[i] = b;
                if fails(&c, &trace, prop, oracle, &mut runs) {
                    cfg = c;
                    progress = true;
                }
            }
        }
        for i in 0..cfg.upstream.len().min(24) {
            if let UpEntry::Fut(b0) = cfg.upstream[i].clone() {
                for b in simpler_beh(&b0) {
                    if runs >= budget {
                        break;
                    }
                    let mut c = cfg.clone();
                    c.upstream[i] = UpEntry::Fut(b);
                    if fails(&c, &trace, prop, oracle, &mut runs) {
                        cfg = c;
                        progress = true;
                    }
                }
            }
        }
        // per-op simplification
        for i in 0..trace.len() {
            let mut again = true;
            while again && runs < budget {
                again = false;
                for cand_op in simpler_ops(&trace[i]) {
                    let mut cand = trace.clone();
                    cand[i] = cand_op;
                    if fails(&cfg, &cand, prop, oracle, &mut runs) {
                        trace = cand;
                        progress = true;
                        again = true;
                        break;
                    }
                }
            }
        }
    }
    // (a minimisation that ran out of time reports its run budget)
    let runs = if runs >= usize::MAX / 2 { budget } else { runs };
    Shrunk { cfg, trace, runs }
}
