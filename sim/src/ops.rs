//! The trace vocabulary. A run is `(Config, Vec<Op>)`; operands are relative selectors so that
//! removing an op leaves the rest meaningful (this is what makes minimisation work).

use serde::{Deserialize, Serialize};

/// How a child behaves. Fixed at creation.
#[derive(Clone, Copy, Debug, Serialize, Deserialize, PartialEq, Eq, Default)]
pub struct Beh {
    /// futures: completes at its first poll
    pub ready: bool,
    /// try-futures: completes with `Err`
    pub fail: bool,
    /// number of pending polls in which it wakes itself (255 = every pending poll)
    pub selfwake: u8,
    /// wakes itself during the poll in which it completes / ends
    pub wake_on_complete: bool,
    /// 0: replace stored waker on every pending poll; 1: only if `!will_wake`
    pub store: u8,
    /// during a pending poll also wake this (relative) other held child
    pub cross: Option<u8>,
    /// sources: items available at creation (255 = always ready, infinite)
    pub items: u8,
    /// sources: closed at creation (ends once `items` are consumed)
    pub closed: bool,
    /// futures: panics (instead of completing) at the poll in which it would complete
    #[serde(default)]
    pub panics: bool,
}

#[derive(Clone, Copy, Debug, Serialize, Deserialize, PartialEq, Eq)]
pub enum PushHow {
    Back,
    Front,
    TryBack,
    TryFront,
}

#[derive(Clone, Copy, Debug, Serialize, Deserialize, PartialEq, Eq)]
pub enum WakeHow {
    ByRef,
    ByValue,
    CloneThenWake,
}

#[derive(Clone, Debug, Serialize, Deserialize, PartialEq)]
pub enum Op {
    Push { beh: Beh, how: PushHow },
    Extend { behs: Vec<Beh> },
    /// `n` pushes of the same behaviour (push_back / push)
    PushMany { beh: Beh, n: u32 },
    /// the `n` oldest live unfinished children finish now (futures become ready, sources are
    /// closed) and are woken
    FinishOldest { n: u32 },
    /// one poll; `fresh`: with a task waker never used before
    Poll { fresh: bool },
    /// poll repeatedly (same task waker) while items come out, at most `max` polls
    PollMany { max: u16, fresh: bool },
    /// executor: poll while the task waker of the last poll has been invoked, at most `max` polls
    Drive { max: u16 },
    /// make the `sel`-th live unfinished future ready; wake it now or owe the wake
    Ready { sel: u16, delay: bool },
    /// sources: add `n` items (wake now or owe)
    Feed { sel: u16, n: u8, delay: bool },
    /// sources: close (wake now or owe)
    Close { sel: u16, delay: bool },
    /// invoke the `sel`-th outstanding waker of a live child
    Wake { sel: u16, how: WakeHow, times: u8 },
    /// deliver the `sel`-th owed wake
    Deliver { sel: u16 },
    /// clone the `sel`-th outstanding waker (any) and keep the clone
    CloneW { sel: u16 },
    /// drop the `sel`-th extra waker (any)
    DropW { sel: u16 },
    /// invoke the `sel`-th waker of a finished/gone child
    Stale { sel: u16, how: WakeHow },
    /// upstream: release `n` more script entries and wake the upstream's stored waker
    Release { n: u8, delay: bool },
    /// move the subject value to a new address
    Relocate,
    /// drop the subject now
    Cancel,
    /// poll a future again after it returned Ready
    PollAfterReady,
    /// C14: freeze the environment and require a quiet Pending within held+2 polls
    Freeze,
    /// the same, but every one of those polls carries a task waker never used before
    FreezeFresh,
    /// stop all faults, deliver everything owed, run the executor to a fixpoint
    Quiesce,
}

#[derive(Clone, Copy, Debug, Serialize, Deserialize, PartialEq, Eq, PartialOrd, Ord, Hash)]
pub enum SubjectKind {
    FUB,
    FU,
    FOB,
    FO,
    MB,
    MU,
    BU,
    BO,
    TBU,
    TBO,
    FEC,
    JA,
    TJA,
}

pub const ALL_SUBJECTS: [SubjectKind; 13] = [
    SubjectKind::FUB,
    SubjectKind::FU,
    SubjectKind::FOB,
    SubjectKind::FO,
    SubjectKind::MB,
    SubjectKind::MU,
    SubjectKind::BU,
    SubjectKind::BO,
    SubjectKind::TBU,
    SubjectKind::TBO,
    SubjectKind::FEC,
    SubjectKind::JA,
    SubjectKind::TJA,
];

#[derive(Clone, Copy, Debug, PartialEq, Eq)]
pub enum Class {
    Collection,
    Merge,
    Adapter,
    Join,
}

impl SubjectKind {
    pub fn class(self) -> Class {
        use SubjectKind::*;
        match self {
            FUB | FU | FOB | FO => Class::Collection,
            MB | MU => Class::Merge,
            BU | BO | TBU | TBO | FEC => Class::Adapter,
            JA | TJA => Class::Join,
        }
    }
    pub fn ordered(self) -> bool {
        use SubjectKind::*;
        matches!(self, FOB | FO | BO | TBO)
    }
    pub fn bounded(self) -> bool {
        use SubjectKind::*;
        matches!(self, FUB | FOB | MB)
    }
    pub fn unbounded_groups(self) -> bool {
        use SubjectKind::*;
        matches!(self, FU | FO | MU)
    }
    pub fn is_try(self) -> bool {
        use SubjectKind::*;
        matches!(self, TBU | TBO | TJA)
    }
    pub fn name(self) -> &'static str {
        use SubjectKind::*;
        match self {
            FUB => "FuturesUnorderedBounded",
            FU => "FuturesUnordered",
            FOB => "FuturesOrderedBounded",
            FO => "FuturesOrdered",
            MB => "MergeBounded",
            MU => "MergeUnbounded",
            BU => "buffered_unordered",
            BO => "buffered_ordered",
            TBU => "try_buffered_unordered",
            TBO => "try_buffered_ordered",
            FEC => "for_each_concurrent",
            JA => "join_all",
            TJA => "try_join_all",
        }
    }
}

/// How the subject is constructed.
#[derive(Clone, Copy, Debug, Serialize, Deserialize, PartialEq, Eq)]
pub enum Ctor {
    /// `new(cap)` / `new()` / adapter(n) / join(inputs)
    New,
    /// unbounded: `with_capacity(cap)`
    WithCapacity,
    /// `collect()` / `from_iter` of `initial` children; for bounded ones this fixes the capacity
    Collect,
}

#[derive(Clone, Debug, Serialize, Deserialize, PartialEq)]
pub struct Config {
    pub subject: SubjectKind,
    pub ctor: Ctor,
    /// capacity / concurrency limit / with_capacity argument
    pub cap: usize,
    /// children present at construction (Collect, joins)
    pub initial: Vec<Beh>,
    /// start value of the ordered position counters (H3), if any
    pub start_pos: Option<usize>,
    /// upstream script for adapters
    pub upstream: Vec<crate::world::UpEntry>,
    /// entries released at start
    pub up_released: usize,
    pub up_lo_slack: usize,
    pub up_hi_slack: Option<usize>,
    /// drop the outstanding wakers before (true) or after (false) the subject at the end
    pub wakers_first: bool,
    /// type shape of the children: bit 0 = the future type has no drop glue, bit 1 = the output
    /// type has no drop glue (collections and joins only)
    #[serde(default)]
    pub shape: u8,
    /// collect()/extend() are fed from an iterator whose size_hint lower bound is inexact (0)
    #[serde(default)]
    pub inexact_iter: bool,
    /// shape of the iterator given to collect()/join_all(): 0 = as `inexact_iter` says,
    /// 2 = lower bound over-reports by 3 (a lying but safe size_hint), 3 = sparse filter_map
    /// (upper bound larger than what is yielded), 4 = upper bound under-reports
    #[serde(default)]
    pub iter_kind: u8,
    /// merge sources report honest size hints instead of the default (0, None)
    #[serde(default)]
    pub src_hints: bool,
    /// with `src_hints`: an open source that has nothing at hand still reports a lower bound of 1
    /// (it knows one more item is coming: a paced stream); the promise is kept when it is closed
    #[serde(default)]
    pub src_promise: bool,
    /// children invoke wakers of the same collection from inside their own drop: their own (then
    /// stale) waker and the waker of a sibling that is still held
    #[serde(default)]
    pub wake_in_drop: bool,
    /// before the run proper: drive every collection and combinator with `(n, r1)` zero-sized
    /// futures / streams against a count-only model (module `zst`)
    #[serde(default)]
    pub zst_children: Option<(u16, u16)>,
    /// name of the workload that generated this run (evidence only)
    pub workload: String,
}
