//! Handler for the crate's verification probes (H1/H2): a shadow registry of waker blocks.
//! Detects, deterministically and before the crate dereferences anything: vtable entry on a
//! released block, release while referenced, double release, leak, wrong header computation,
//! release with a layout other than the allocation's.

use futures_buffered::verif::{Event, WakerOp};
use std::cell::RefCell;

#[derive(Clone, Debug)]
pub struct Block {
    pub base: usize,
    pub size: usize,
    pub align: usize,
    pub cap: usize,
    /// 1 (handle) + clones - drops
    pub shadow: i64,
    pub released: u32,
    pub handle_alive: bool,
}

#[derive(Default)]
pub struct ProbeState {
    pub blocks: Vec<Block>,
    pub hits: [u64; 9],
    pub waker_ops: [u64; 4],
    /// (classifier, detail)
    pub errors: Vec<(&'static str, String)>,
    /// a fatal error was seen: the next probe unwinds out of the crate
    pub fatal: bool,
}

thread_local! {
    pub static P: RefCell<ProbeState> = RefCell::new(ProbeState::default());
}

/// Payload used to unwind out of the crate when continuing would touch freed memory.
pub struct AbortRun(pub &'static str);

pub fn install() {
    futures_buffered::verif::set_handler(handler);
}

pub fn reset() {
    P.with(|p| {
        let mut p = p.borrow_mut();
        p.blocks.clear();
        p.hits = [0; 9];
        p.waker_ops = [0; 4];
        p.errors.clear();
        p.fatal = false;
    });
}

/// Number of wakers in the environment's books whose data pointer lies in `[base, base+size)`.
fn held_into(base: usize, size: usize) -> usize {
    let inside = |w: &std::task::Waker| {
        let a = w.data() as usize;
        a >= base && a < base + size
    };
    crate::world::WORLD.with(|w| match w.try_borrow() {
        Ok(w) => {
            w.children.iter().filter_map(|c| c.stored.as_ref()).filter(|w| inside(w)).count()
                + w.wakers.iter().filter(|h| inside(&h.waker)).count()
                + w.owed.iter().filter(|h| inside(&h.waker)).count()
                + w.trash.iter().filter(|w| inside(w)).count()
                + w.borrowed.iter().filter(|h| inside(&h.waker)).count()
        }
        Err(_) => 0,
    })
}

fn find_live(p: &mut ProbeState, addr: usize) -> Option<usize> {
    p.blocks
        .iter()
        .position(|b| b.released == 0 && addr >= b.base && addr < b.base + b.size)
}
fn find_released(p: &ProbeState, addr: usize) -> bool {
    p.blocks
        .iter()
        .any(|b| b.released > 0 && addr >= b.base && addr < b.base + b.size)
}

fn handler(e: &Event) {
    let abort: Option<&'static str> = crate::flags::in_world(|| {
        P.with(|p| {
            let mut p = match p.try_borrow_mut() {
                Ok(p) => p,
                Err(_) => return None,
            };
            let p = &mut *p;
            match *e {
                Event::BlockAlloc {
                    base,
                    size,
                    align,
                    cap,
                } => {
                    p.blocks.push(Block {
                        base,
                        size,
                        align,
                        cap,
                        shadow: 1,
                        released: 0,
                        handle_alive: true,
                    });
                    None
                }
                Event::BlockRelease { base, size, align } => {
                    if let Some(i) = p.blocks.iter().rposition(|b| b.base == base) {
                        let b = &mut p.blocks[i];
                        if b.released > 0 {
                            b.released += 1;
                            p.errors.push((
                                "double-release",
                                format!("waker block cap={} released twice", b.cap),
                            ));
                            return Some("double-release");
                        }
                        b.released = 1;
                        // The environment owns every child waker that exists outside the crate:
                        // none of them may point into a block that is being released, and the
                        // owning collection must be gone. (Counted from the harness' own books,
                        // not from the clone/drop probes, so that a refactoring that moves the
                        // reference counting around cannot cause a false alarm.)
                        let held = held_into(b.base, b.size);
                        if held > 0 || b.handle_alive {
                            let d = format!(
                                "waker block cap={} released while {} wakers of the environment still point into it (collection handle alive: {})",
                                b.cap, held, b.handle_alive
                            );
                            p.errors.push(("release-while-referenced", d));
                        }
                        if b.size != size || b.align != align {
                            let d = format!(
                                "waker block cap={} allocated size={} align={} released size={} align={}",
                                b.cap, b.size, b.align, size, align
                            );
                            p.errors.push(("release-layout", d));
                        }
                        None
                    } else {
                        p.errors.push((
                            "release-unknown",
                            "release of an address that is not a waker block".to_string(),
                        ));
                        Some("release-unknown")
                    }
                }
                Event::WakerEnter { op, item } => {
                    p.waker_ops[op as usize] += 1;
                    match find_live(p, item) {
                        Some(i) => {
                            let b = &mut p.blocks[i];
                            // informational only (shown in leak reports)
                            match op {
                                WakerOp::Clone => b.shadow += 1,
                                WakerOp::Drop => b.shadow -= 1,
                                _ => {}
                            }
                            None
                        }
                        None => {
                            let rel = find_released(p, item);
                            p.errors.push((
                                if rel { "use-after-release" } else { "wild-waker" },
                                format!("waker {:?} entered on a block that is {}", op, if rel { "already released" } else { "unknown" }),
                            ));
                            Some("use-after-release")
                        }
                    }
                }
                Event::WakerResolved { item, header } => {
                    match find_live(p, item) {
                        Some(i) => {
                            if p.blocks[i].base != header {
                                let d = format!(
                                    "waker block cap={}: header computed at offset {} from base for slot at offset {}",
                                    p.blocks[i].cap,
                                    header as i64 - p.blocks[i].base as i64,
                                    item - p.blocks[i].base
                                );
                                p.errors.push(("wrong-header", d));
                                return Some("wrong-header");
                            }
                            None
                        }
                        None => None, // already reported by WakerEnter
                    }
                }
                Event::HandleUse { base } => {
                    match p.blocks.iter().rposition(|b| b.base == base) {
                        Some(i) if p.blocks[i].released == 0 => None,
                        _ => {
                            p.errors.push((
                                "handle-use-after-release",
                                "collection used its waker block after it was released".to_string(),
                            ));
                            Some("handle-use-after-release")
                        }
                    }
                }
                Event::HandleDrop { base } => {
                    match p.blocks.iter().rposition(|b| b.base == base) {
                        Some(i) if p.blocks[i].released == 0 && p.blocks[i].handle_alive => {
                            p.blocks[i].handle_alive = false;
                            p.blocks[i].shadow -= 1;
                            None
                        }
                        _ => {
                            p.errors.push((
                                "handle-drop-after-release",
                                "collection dropped its waker block handle twice or after release".to_string(),
                            ));
                            Some("handle-drop-after-release")
                        }
                    }
                }
                Event::Hit(h) => {
                    p.hits[h as usize] += 1;
                    None
                }
            }
        })
    });
    if let Some(why) = abort {
        P.with(|p| p.borrow_mut().fatal = true);
        if !std::thread::panicking() {
            crate::flags::F.with(|f| f.quiet_panic.set(true));
            std::panic::panic_any(AbortRun(why));
        }
    }
}

/// End-of-run audit once the subject and every waker are gone.
pub fn end_audit(errors: &mut Vec<(&'static str, String)>) {
    P.with(|p| {
        let mut p = p.borrow_mut();
        errors.append(&mut p.errors);
        for b in &p.blocks {
            // a block whose release was not announced by the probe but which the allocator has seen
            // released is not a leak (a refactoring may have dropped the probe call)
            if b.released == 0 && crate::alloc::is_live(b.base) != Some(false) {
                errors.push((
                    "block-leak",
                    format!(
                        "waker block cap={} never released (shadow count {} , handle alive {})",
                        b.cap, b.shadow, b.handle_alive
                    ),
                ));
            }
        }
    });
}

pub fn hits() -> [u64; 9] {
    P.with(|p| p.borrow().hits)
}
pub fn waker_ops() -> [u64; 4] {
    P.with(|p| p.borrow().waker_ops)
}
pub fn take_errors() -> Vec<(&'static str, String)> {
    P.with(|p| std::mem::take(&mut p.borrow_mut().errors))
}
pub fn block_count() -> usize {
    P.with(|p| p.borrow().blocks.len())
}
