//! The simulated environment's ledger: every child, every output token, every waker the
//! environment holds, the upstream script, and the monitors that are evaluated on each event.

use crate::flags::F;
use crate::ops::Beh;
use serde::{Deserialize, Serialize};
use std::cell::RefCell;
use std::collections::BTreeSet;
use std::task::Waker;

pub const MAGIC: u64 = 0x544f_4b21_6f6b_2121;

/// Output value handed through the crate. Plain data: a garbage `Tok` is harmless to drop.
pub struct Tok {
    pub magic: u64,
    pub id: u32,
    pub child: u32,
    pub seq: u32,
    pub kind: u32,
}

pub const K_OK: u32 = 0;
pub const K_ERR: u32 = 1;
pub const K_ITEM: u32 = 2;
pub const K_UPERR: u32 = 3;
/// stands for a zero-sized output that cannot carry an identity
pub const K_ANON: u32 = 4;

impl Drop for Tok {
    fn drop(&mut self) {
        if F.with(|f| f.aborting.get()) {
            return;
        }
        let (magic, id) = (self.magic, self.id);
        with(|w| {
            if magic != MAGIC || (id as usize) >= w.toks.len() {
                w.garbage_tok_drops += 1;
                return;
            }
            let t = &mut w.toks[id as usize];
            t.drops += 1;
            if t.drops > 1 {
                let d = format!("output #{} of child {} dropped {} times", id, t.child, t.drops);
                w.violate("C06", "output-double-drop", d);
            }
            w.log(0x70, id as u64);
        });
    }
}

#[derive(Clone, Debug)]
pub struct TokSt {
    /// the output type has no drop glue: its drops cannot be observed (and cannot leak)
    pub nodrop: bool,
    pub child: u32,
    pub seq: u32,
    pub kind: u32,
    pub drops: u32,
    pub handed_out: bool,
}

#[derive(Clone, Copy, Debug, PartialEq, Eq)]
pub enum CKind {
    Fut,
    Src,
}

pub struct Child {
    pub kind: CKind,
    pub beh: Beh,
    pub accepted: bool,
    pub ready: bool,
    pub selfwake_left: u32,
    pub stored: Option<Waker>,
    pub polls: u32,
    pub first_addr: usize,
    pub completed_at: Option<u64>,
    pub drops: u32,
    pub dropped_at_poll: Option<u64>,
    pub needs_poll: bool,
    pub needs_since: u64,
    /// needs_poll was (also) caused by a waker invocation, not only by the push
    pub needs_by_wake: bool,
    pub credits: u32,
    pub yielded: bool,
    pub from_upstream: bool,
    /// the future type has no Drop impl: its drop cannot be observed
    pub nodrop: bool,
    /// panicked in its poll
    pub panicked: bool,
    // sources
    pub avail: u32,
    pub closed: bool,
    pub next_seq: u32,
    pub next_expected: u32,
    /// a wake is owed to this child (made ready with delayed wake); number of owed entries
    pub owed: u32,
}

pub const INF: u32 = u32::MAX;

pub struct HeldWaker {
    pub child: u32,
    pub waker: Waker,
}

#[derive(Clone, Debug, Serialize, Deserialize, PartialEq)]
pub enum UpEntry {
    Fut(Beh),
    Err,
}

#[derive(Default)]
pub struct Upstream {
    pub script: Vec<UpEntry>,
    pub pos: usize,
    pub released: usize,
    pub ended: bool,
    pub polls: u64,
    pub stored: Option<Waker>,
    /// slack of the honest size_hint: lower = max(rem - lo_slack, 0); upper = rem + hi_slack or None
    pub lo_slack: usize,
    pub hi_slack: Option<usize>,
    pub polled_this_call: bool,
    pub pending_this_call: bool,
    pub pulled_futs: u64,
    pub errs_out: u64,
    pub polled_after_end: u64,
}

impl Upstream {
    pub fn remaining(&self) -> usize {
        self.script.len() - self.pos
    }
    pub fn hint(&self) -> (usize, Option<usize>) {
        let r = self.remaining();
        (
            r.saturating_sub(self.lo_slack),
            self.hi_slack.map(|s| r.saturating_add(s)),
        )
    }
}

#[derive(Clone, Debug, Serialize, Deserialize)]
pub struct Violation {
    pub property: String,
    pub oracle: String,
    pub detail: String,
    pub op_index: usize,
}

pub struct World {
    pub children: Vec<Child>,
    pub toks: Vec<TokSt>,
    pub wakers: Vec<HeldWaker>,
    /// wakes owed to children (made ready, wake delayed): (child, cloned waker)
    pub owed: Vec<HeldWaker>,
    pub trash: Vec<Waker>,
    /// wakers taken out of the pool while they are being invoked from inside a child's drop
    pub borrowed: Vec<HeldWaker>,
    /// children invoke wakers from inside their own drop (run-level fault kind)
    pub wake_in_drop: bool,
    pub up: Upstream,
    pub limit: usize,
    pub poll_no: u64,
    pub op_index: usize,
    pub child_polls_call: u64,
    pub completions_call: u64,
    pub ended_call: u64,
    pub pulled_call: u64,
    pub completed_ids_call: Vec<u32>,
    pub pulled_ids_call: Vec<u32>,
    /// accepted, not finished, not dropped
    pub live: BTreeSet<u32>,
    /// accepted, output not yet yielded / source not yet ended
    pub held: BTreeSet<u32>,
    /// live children that are owed a poll, ordered by the poll number since which they are owed it
    pub owed_polls: BTreeSet<(u64, u32)>,
    pub work_cap: u64,
    pub child_polls_total: u64,
    pub child_waker_invocations: u64,
    pub stale_credits: u64,
    pub stale_backlog: u64,
    pub accepted_pushes: u64,
    pub merge_items: u64,
    pub garbage_tok_drops: u64,
    pub frozen: bool,
    pub subject_gone: bool,
    pub violations: Vec<Violation>,
    pub hash: u64,
    pub steps: u64,
    pub faults: [u64; NFAULT],
    pub unit_outputs: bool,
    /// type shape of this run
    pub nd_children: bool,
    pub raw_outputs: bool,
    pub child_panics: u64,
    pub inexact_iter: bool,
    /// merge sources report honest size hints instead of the default (0, None)
    pub src_hints: bool,
    pub src_promise: bool,
    /// ordered adapter: pulled-but-not-yielded is also checked at the moment of each pull
    pub ordered_adapter: bool,
    pub adapter_yielded: u64,
    pub zst_created: i64,
    pub zst_dropped: i64,
}

pub const NFAULT: usize = 18;
pub const FAULT_NAMES: [&str; NFAULT] = [
    "spurious_wake",
    "duplicate_wake",
    "delayed_wake",
    "stale_wake",
    "wake_after_drop",
    "waker_clone_churn",
    "waker_drop",
    "fresh_task_waker",
    "self_wake",
    "wake_on_complete",
    "cross_wake",
    "relocate",
    "cancel",
    "upstream_pending",
    "upstream_error",
    "refused_push",
    "child_panic",
    "wake_in_drop",
];
pub const FA_SPURIOUS: usize = 0;
pub const FA_DUP: usize = 1;
pub const FA_DELAYED: usize = 2;
pub const FA_STALE: usize = 3;
pub const FA_AFTER_DROP: usize = 4;
pub const FA_CLONE: usize = 5;
pub const FA_DROPW: usize = 6;
pub const FA_FRESH: usize = 7;
pub const FA_SELF: usize = 8;
pub const FA_WOC: usize = 9;
pub const FA_CROSS: usize = 10;
pub const FA_RELOC: usize = 11;
pub const FA_CANCEL: usize = 12;
pub const FA_UP_PENDING: usize = 13;
pub const FA_UP_ERR: usize = 14;
pub const FA_REFUSED: usize = 15;
pub const FA_PANIC: usize = 16;
pub const FA_WAKE_IN_DROP: usize = 17;

impl World {
    pub fn new() -> World {
        World {
            children: Vec::new(),
            toks: Vec::new(),
            wakers: Vec::new(),
            owed: Vec::new(),
            trash: Vec::new(),
            up: Upstream::default(),
            limit: 0,
            poll_no: 0,
            op_index: 0,
            child_polls_call: 0,
            completions_call: 0,
            ended_call: 0,
            pulled_call: 0,
            completed_ids_call: Vec::new(),
            pulled_ids_call: Vec::new(),
            live: BTreeSet::new(),
            held: BTreeSet::new(),
            owed_polls: BTreeSet::new(),
            work_cap: u64::MAX,
            child_polls_total: 0,
            child_waker_invocations: 0,
            stale_credits: 0,
            stale_backlog: 0,
            accepted_pushes: 0,
            merge_items: 0,
            garbage_tok_drops: 0,
            frozen: false,
            subject_gone: false,
            violations: Vec::new(),
            hash: 0xcbf2_9ce4_8422_2325,
            steps: 0,
            faults: [0; NFAULT],
            unit_outputs: false,
            nd_children: false,
            raw_outputs: false,
            child_panics: 0,
            inexact_iter: false,
            src_hints: false,
            src_promise: false,
            wake_in_drop: false,
            borrowed: vec![],
            ordered_adapter: false,
            adapter_yielded: 0,
            zst_created: 0,
            zst_dropped: 0,
        }
    }

    pub fn log(&mut self, tag: u64, v: u64) {
        self.steps += 1;
        let x = tag.wrapping_mul(0x1_0000_0001).wrapping_add(v);
        self.hash = (self.hash ^ x).wrapping_mul(0x0000_0100_0000_01b3);
        self.hash ^= self.hash >> 29;
    }

    pub fn violate(&mut self, prop: &str, oracle: &str, detail: String) {
        // at most two entries per (property, oracle) so that one noisy oracle cannot crowd out
        // the others
        let same = self.violations.iter().filter(|v| v.property == prop && v.oracle == oracle).count();
        if same < 2 && self.violations.len() < 64 {
            let op_index = self.op_index;
            self.violations.push(Violation {
                property: prop.to_string(),
                oracle: oracle.to_string(),
                detail,
                op_index,
            });
        }
    }

    pub fn new_child(&mut self, kind: CKind, beh: Beh) -> u32 {
        let id = self.children.len() as u32;
        let c = Child {
            kind,
            beh,
            accepted: false,
            ready: beh.ready,
            selfwake_left: match beh.selfwake {
                255 => INF,
                n => n as u32,
            },
            stored: None,
            polls: 0,
            first_addr: 0,
            completed_at: None,
            drops: 0,
            dropped_at_poll: None,
            needs_poll: false,
            needs_since: 0,
            needs_by_wake: false,
            credits: 0,
            yielded: false,
            from_upstream: false,
            nodrop: self.nd_children,
            panicked: false,
            avail: if kind == CKind::Src {
                match beh.items {
                    255 => INF,
                    n => n as u32,
                }
            } else {
                0
            },
            closed: kind == CKind::Src && beh.closed,
            next_seq: 0,
            next_expected: 0,
            owed: 0,
        };
        self.children.push(c);
        id
    }

    pub fn new_tok(&mut self, child: u32, seq: u32, kind: u32) -> Tok {
        let id = self.toks.len() as u32;
        self.toks.push(TokSt {
            nodrop: self.raw_outputs,
            child,
            seq,
            kind,
            drops: 0,
            handed_out: false,
        });
        Tok {
            magic: MAGIC,
            id,
            child,
            seq,
            kind,
        }
    }

    /// A child the subject currently holds and that has not finished.
    pub fn is_live(&self, id: u32) -> bool {
        !self.subject_gone && self.live.contains(&id)
    }

    pub fn live_children(&self) -> Vec<u32> {
        if self.subject_gone {
            return vec![];
        }
        self.live.iter().copied().collect()
    }

    /// Held = accepted and not yet yielded (futures) / not yet ended (sources).
    pub fn held_count(&self) -> usize {
        if self.subject_gone {
            0
        } else {
            self.held.len()
        }
    }

    pub fn mark_yielded(&mut self, id: u32) {
        self.children[id as usize].yielded = true;
        self.held.remove(&id);
    }

    /// The child finished (future completed / source ended) or was dropped.
    pub fn no_longer_live(&mut self, id: u32) {
        self.live.remove(&id);
        let c = &self.children[id as usize];
        if c.needs_poll {
            let k = (c.needs_since, id);
            self.owed_polls.remove(&k);
        }
        if self.children[id as usize].kind == CKind::Src {
            self.held.remove(&id);
        }
    }

    /// Validate an output that the subject handed out. `prop` is the property a bad value violates.
    pub fn check_tok(&mut self, t: &Tok, prop: &str, ctx: &str) -> Option<(u32, u32, u32)> {
        let bad = t.magic != MAGIC
            || (t.id as usize) >= self.toks.len()
            || {
                let st = &self.toks[t.id as usize];
                st.child != t.child || st.seq != t.seq || st.kind != t.kind
            };
        if bad {
            let d = format!("{}: value handed out was not produced by any child (garbage)", ctx);
            self.violate(prop, "garbage-output", d);
            return None;
        }
        let st = &mut self.toks[t.id as usize];
        if st.handed_out {
            let d = format!("{}: output #{} of child {} handed out twice", ctx, t.id, st.child);
            self.violate(prop, "duplicate-output", d);
            return None;
        }
        if st.drops > 0 {
            let d = format!("{}: output #{} of child {} handed out after it was dropped", ctx, t.id, st.child);
            self.violate(prop, "output-after-drop", d);
            return None;
        }
        st.handed_out = true;
        Some((t.child, t.seq, t.kind))
    }

    /// Record that the subject accepted child `id` (push, or pull from upstream).
    pub fn accept(&mut self, id: u32) {
        let pn = self.poll_no;
        let c = &mut self.children[id as usize];
        c.accepted = true;
        c.needs_poll = true;
        c.needs_since = pn;
        c.needs_by_wake = false;
        c.credits += 1;
        self.owed_polls.insert((pn, id));
        self.accepted_pushes += 1;
        self.live.insert(id);
        self.held.insert(id);
    }

    /// Ledger entry for one invocation of a waker that was handed to `child`.
    pub fn note_invocation(&mut self, child: u32) {
        if (child as usize) >= self.children.len() {
            return; // the upstream's waker is the task waker itself
        }
        self.child_waker_invocations += 1;
        if self.is_live(child) {
            let pn = self.poll_no;
            let c = &mut self.children[child as usize];
            if !c.needs_poll {
                c.needs_poll = true;
                c.needs_since = pn;
                self.owed_polls.insert((pn, child));
            }
            let c = &mut self.children[child as usize];
            c.needs_by_wake = true;
            c.credits += 1;
        } else {
            self.stale_credits += 1;
            self.stale_backlog += 1;
        }
    }
}

thread_local! {
    pub static WORLD: RefCell<World> = RefCell::new(World::new());
}

/// Short, never nested, access to the world. Runs as harness code.
pub fn with<R>(f: impl FnOnce(&mut World) -> R) -> R {
    crate::flags::in_world(|| {
        WORLD.with(|w| match w.try_borrow_mut() {
            Ok(mut w) => f(&mut w),
            Err(_) => {
                eprintln!("HARNESS-ERROR: nested world access");
                std::process::exit(2);
            }
        })
    })
}

/// Drop everything parked in the trash, one waker at a time, as crate code (waker drops run the
/// crate's vtable). The ones not yet dropped stay in the world's books, so that a premature
/// release of their block is seen. Returns the panic payload if a drop unwound (fatal probe).
pub fn empty_trash() -> Result<(), Box<dyn std::any::Any + Send>> {
    loop {
        let t = with(|w| w.trash.pop());
        let Some(t) = t else { return Ok(()) };
        let r = std::panic::catch_unwind(std::panic::AssertUnwindSafe(|| crate::flags::in_crate(|| drop(t))));
        if let Err(p) = r {
            return Err(p);
        }
    }
}
