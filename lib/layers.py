"""Layers L2 (shuttle) and L3 (Miri) of the checks. Imported by /verif/check."""
import json
import os
import re
import subprocess
import time

VERIF = os.path.dirname(os.path.dirname(os.path.abspath(__file__)))
THREADS_DIR = os.path.join(VERIF, "simthreads")
MIRI_DIR = os.path.join(VERIF, "simmiri")
SIM_DIR = os.path.join(VERIF, "sim")
FBTHREADS = os.path.join(VERIF, "target", "threads", "release", "fbthreads")
REPLAYS = os.path.join(VERIF, "replays")
EVID = os.path.join(VERIF, "evidence")
ENV = dict(os.environ, CARGO_NET_OFFLINE="true")

# property -> (L2 mode, L3 mode)
THREADED = {"C01": "Liveness", "C03": "Lifetime"}
# properties whose thorough tier re-runs L1 traces under Miri (UB back-stop)
MIRI_L1 = {"C03": 24, "C06": 24, "C07": 32, "C08": 24}


def sh(cmd, cwd, env=None, timeout=None):
    return subprocess.run(cmd, cwd=cwd, env=env or ENV, stdout=subprocess.PIPE, stderr=subprocess.STDOUT, text=True, timeout=timeout)


def sh_group(cmd, cwd, env, timeout):
    """Like sh(), but in its own process group, so that the whole tree (cargo -> cargo-miri -> miri) is
    killed when the time limit is hit. Returns (completed process or None on timeout, output)."""
    import signal
    p = subprocess.Popen(cmd, cwd=cwd, env=env, stdout=subprocess.PIPE, stderr=subprocess.STDOUT, text=True, start_new_session=True)
    try:
        out, _ = p.communicate(timeout=timeout)
        return p, out
    except subprocess.TimeoutExpired:
        try:
            os.killpg(p.pid, signal.SIGKILL)
        except OSError:
            pass
        out, _ = p.communicate()
        return None, out


def build(log):
    r = sh(["cargo", "build", "--release", "--offline"], THREADS_DIR)
    if r.returncode != 0:
        log(r.stdout[-3000:])
        log("HARNESS-ERROR: fbthreads does not build")
        raise SystemExit(2)
    # Miri builds (also builds the Miri sysroot on first use)
    r = sh(["cargo", "+nightly", "miri", "run", "--offline", "--", "Liveness", "1", "1", "1", "1"], MIRI_DIR,
           env=dict(ENV, MIRIFLAGS="-Zmiri-preemption-rate=0.05"))
    if r.returncode != 0 or "fbmiri ok" not in r.stdout:
        log(r.stdout[-3000:])
        log("HARNESS-ERROR: fbmiri does not run under Miri")
        raise SystemExit(2)
    r = sh(["cargo", "+nightly", "miri", "run", "--offline", "--", "check", "--prop", "C07", "--tier", "quick", "--runs", "1",
            "--threads", "1", "--max-ops", "6", "--replays", REPLAYS, "--first", "0"], SIM_DIR,
           env=dict(ENV, MIRIFLAGS="-Zmiri-disable-isolation -Zmiri-permissive-provenance"))
    if r.returncode != 0:
        log(r.stdout[-3000:])
        log("HARNESS-ERROR: fbsim does not run under Miri")
        raise SystemExit(2)


def run_l2(prop, tier, seed, log):
    r = sh(["cargo", "build", "--release", "--offline"], THREADS_DIR)
    if r.returncode != 0:
        log(r.stdout[-3000:])
        log("HARNESS-ERROR: fbthreads does not build against /repo's working tree")
        raise SystemExit(2)
    iters = 12000 if tier == "quick" else 400000
    out = os.path.join(EVID, ".l2-%s.json" % prop)
    if os.path.exists(out):
        os.remove(out)
    r = subprocess.run([FBTHREADS, "check", "--prop", prop, "--iters", str(iters), "--seed", str(seed), "--workers", "16",
                        "--out", out, "--replays", REPLAYS], stdout=subprocess.PIPE, stderr=subprocess.DEVNULL, text=True)
    print(r.stdout, end="", flush=True)
    if r.returncode < 0:
        # killed by a signal: in this layer a use-after-free or double free of the code under test is
        # real and takes the process down (the schedule of the crashing execution is lost with it)
        path = os.path.join(REPLAYS, "%s-l2-crash.txt" % prop)
        os.makedirs(REPLAYS, exist_ok=True)
        with open(path, "w") as f:
            f.write("# layer=L2\n# fbthreads was killed by signal %d while exploring interleavings\n# replay: %s check --prop %s --iters %d --seed %d --workers 16\n"
                    % (-r.returncode, FBTHREADS, prop, iters, seed))
        log("VIOLATION property=%s replay=%s" % (prop, path))
        log("  L2: the interleaving explorer was killed by signal %d (memory corruption by the code under test)" % (-r.returncode))
        return 1, {"layer": "L2 fbthreads", "crashed_with_signal": -r.returncode, "violations_counted": 1}
    if r.returncode not in (0, 1):
        log("HARNESS-ERROR: fbthreads exited with %d" % r.returncode)
        raise SystemExit(2)
    try:
        ev = json.load(open(out))
        os.remove(out)
    except Exception as e:  # noqa
        log("HARNESS-ERROR: fbthreads wrote no evidence: %s" % e)
        raise SystemExit(2)
    return r.returncode, ev


MIRI_ERR = re.compile(r"^error: (.*)$", re.M)


RELEVANT = ("Data race", "deadlock", "leaked", "dangling", "freed", "dealloc", "uninitialized", "out-of-bounds", "null pointer",
            "unaligned", "panicked", "abnormal termination", "the main thread terminated")


def miri_verdict(text):
    """-> (failed, first error line, failing seed). Errors of Miri's aliasing model alone (borrow
    stack / tree borrows), which none of the properties speak about, are reported as notes only."""
    errs = [m.group(1) for m in MIRI_ERR.finditer(text)
            if not m.group(1).startswith("aborting due to") and "could not compile" not in m.group(1)]
    seed = None
    m = re.search(r"FAILING SEED: (\d+)", text)
    if m:
        seed = int(m.group(1))
    if errs and not any(k in errs[0] for k in RELEVANT) and ("borrow stack" in errs[0] or "retag" in errs[0] or "Tree Borrows" in errs[0] or "protected" in errs[0]):
        print("NOTE (aliasing model only, not counted): %s" % errs[0], flush=True)
        return False, errs[0], seed
    return (len(errs) > 0 or seed is not None), (errs[0] if errs else ""), seed


def run_l3(prop, tier, seed, log):
    mode = THREADED[prop]
    nseeds = 8 if tier == "quick" else 32
    # many distinct scenarios, each under several Miri schedules
    workloads = [seed % 1000 + 1 + k for k in range(4 if tier == "quick" else 12)]
    execs = 14 if tier == "quick" else 16
    t0 = time.time()
    ran = 0
    stats = {"polls": 0, "pendings": 0, "parks": 0, "wakes": 0, "wakes_during_poll": 0, "stale": 0, "after_drop": 0, "early_drops": 0, "executions": 0}
    for wl in workloads:
        flags = "-Zmiri-many-seeds=0..%d -Zmiri-preemption-rate=0.05" % nseeds
        cmd = ["cargo", "+nightly", "miri", "run", "--offline", "--", mode, str(wl), str(execs), "2", "3"]
        # a normal invocation takes seconds (quick) to a few minutes (thorough); an endless loop of
        # the code under test (e.g. a cyclic ready queue) never ends under the interpreter
        limit = 600 if tier == "quick" else 5400
        t1 = time.time()
        pr, out = sh_group(cmd, MIRI_DIR, dict(ENV, MIRIFLAGS=flags), limit)
        if pr is None:
            path = os.path.join(REPLAYS, "%s-l3-%s-wl%d-hang.miri.txt" % (prop, mode, wl))
            os.makedirs(REPLAYS, exist_ok=True)
            with open(path, "w") as f:
                f.write("# layer=L3\n# mode=%s\n# workload=%d\n# executions=%d\n# failure=no result within %d s (earlier workloads of this run took %.0f s each): endless loop or livelock of the code under test under Miri\n" % (mode, wl, execs, limit, (t1 - t0) / max(1, workloads.index(wl))))
                f.write("# replay: cd %s && MIRIFLAGS='%s' cargo +nightly miri run --offline -- %s %d %d 2 3\n" % (MIRI_DIR, flags, mode, wl, execs))
                f.write(out[-4000:])
            log("VIOLATION property=%s replay=%s" % (prop, path))
            log("  L3 (Miri, std threads) workload=%d: no result within %d s - endless loop or livelock of the code under test" % (wl, limit))
            return 1, {"layer": "L3 fbmiri under Miri", "interpretations": ran, "violation": "hang", "wall_s": round(time.time() - t0, 1)}

        class _R:
            pass
        r = _R()
        r.stdout, r.returncode = out, pr.returncode
        if "could not compile" in r.stdout:
            log(r.stdout[-3000:])
            log("HARNESS-ERROR: fbmiri does not build against /repo's working tree")
            raise SystemExit(2)
        oks = re.findall(r"^fbmiri ok .*$", r.stdout, re.M)
        ran += len(oks)
        for line in oks:
            for k, v in re.findall(r"(\w+)=(\d+)", line):
                if k in stats:
                    stats[k] += int(v)
        failed, first, fseed = miri_verdict(r.stdout)
        if failed or r.returncode != 0:
            if not failed and first:
                continue  # aliasing-model note only
            if not failed:
                log(r.stdout[-2000:])
                log("HARNESS-ERROR: Miri run failed without a verdict")
                raise SystemExit(2)
            path = os.path.join(REPLAYS, "%s-l3-%s-wl%d-seed%s.miri.txt" % (prop, mode, wl, fseed))
            os.makedirs(REPLAYS, exist_ok=True)
            with open(path, "w") as f:
                f.write("# layer=L3\n# mode=%s\n# workload=%d\n# executions=%d\n# miri_seed=%s\n# failure=%s\n" % (mode, wl, execs, fseed, first))
                f.write("# replay: cd %s && MIRIFLAGS='-Zmiri-seed=%s -Zmiri-preemption-rate=0.05' cargo +nightly miri run --offline -- %s %d %d 2 3\n" % (MIRI_DIR, fseed, mode, wl, execs))
                f.write(r.stdout[-6000:])
            log("VIOLATION property=%s replay=%s" % (prop, path))
            log("  L3 (Miri, std threads) miri_seed=%s workload=%d: %s" % (fseed, wl, first))
            return 1, {"layer": "L3 fbmiri under Miri", "interpretations": ran, "violation": first, "wall_s": round(time.time() - t0, 1)}
    cov = {"layer": "L3 fbmiri (real std threads, real spin/cordyceps/diatomic-waker, no probe handler) under Miri: seeded scheduler, weak-memory emulation, data-race detector, borrow tracker, leak checker",
           "miri_seeds": nseeds, "workload_seeds": workloads, "interpretations": ran, "executions_per_interpretation": execs,
           "totals": stats, "flags": "-Zmiri-many-seeds=0..%d -Zmiri-preemption-rate=0.05" % nseeds, "wall_s": round(time.time() - t0, 1)}
    return 0, cov


def run_l1_miri(prop, tier, seed, log):
    n = MIRI_L1[prop]
    procs = []
    t0 = time.time()
    per = 2
    k = (n + per - 1) // per
    for i in range(k):
        cmd = ["cargo", "+nightly", "miri", "run", "--offline", "--", "check", "--prop", prop, "--tier", "quick",
               "--seed", str(seed), "--first", str(i * per), "--runs", str(i * per + per), "--threads", "1", "--max-ops", "14",
               "--replays", REPLAYS, "--no-shrink"]
        procs.append((i, subprocess.Popen(cmd, cwd=SIM_DIR, env=dict(ENV, MIRIFLAGS="-Zmiri-disable-isolation -Zmiri-permissive-provenance"),
                                          stdout=subprocess.PIPE, stderr=subprocess.STDOUT, text=True)))
        # at most 16 at a time
        while sum(1 for _, p in procs if p.poll() is None) >= 16:
            time.sleep(0.2)
    rc = 0
    ran = 0
    for i, p in procs:
        out, _ = p.communicate()
        if "could not compile" in out:
            log(out[-3000:])
            log("HARNESS-ERROR: fbsim does not build under Miri")
            raise SystemExit(2)
        failed, first, _ = miri_verdict(out)
        viol = [l for l in out.splitlines() if l.startswith("VIOLATION")]
        m = re.search(r"fbsim done property=\S+ runs=(\d+)", out)
        if m:
            ran += int(m.group(1))
        if failed:
            path = os.path.join(REPLAYS, "%s-l1miri-%d.miri.txt" % (prop, i))
            with open(path, "w") as f:
                f.write("# layer=L1-under-Miri\n# failure=%s\n# replay: cd %s && MIRIFLAGS='-Zmiri-disable-isolation -Zmiri-permissive-provenance' cargo +nightly miri run --offline -- check --prop %s --tier quick --seed %d --first %d --runs %d --threads 1 --max-ops 14 --no-shrink\n" % (first, SIM_DIR, prop, seed, i * per, i * per + per))
                f.write(out[-6000:])
            log("VIOLATION property=%s replay=%s" % (prop, path))
            log("  L1 trace under Miri: %s" % first)
            rc = 1
        elif viol:
            for l in viol:
                log(l)
            rc = 1
        elif p.returncode != 0 and not first:
            log(out[-2000:])
            log("HARNESS-ERROR: fbsim under Miri exited with %d" % p.returncode)
            raise SystemExit(2)
    return rc, {"layer": "L1 traces re-run under Miri (uninitialised reads, use-after-free, double free, invalid aliasing, leaks are reported by the interpreter)",
                "runs": ran, "max_ops_per_trace": 14, "wall_s": round(time.time() - t0, 1)}


def run(prop, tier, seed, log):
    rc = 0
    cov = {}
    viol = 0
    if prop in THREADED:
        rc2, ev2 = run_l2(prop, tier, seed, log)
        cov["L2"] = ev2
        viol += ev2.get("violations_counted", 0)
        rc = max(rc, rc2)
        rc3, ev3 = run_l3(prop, tier, seed, log)
        cov["L3"] = ev3
        viol += 1 if rc3 else 0
        rc = max(rc, rc3)
    if tier == "thorough" and prop in MIRI_L1:
        rc4, ev4 = run_l1_miri(prop, tier, seed, log)
        cov["L1_under_miri"] = ev4
        viol += 1 if rc4 else 0
        rc = max(rc, rc4)
    return rc, cov, viol


def replay(path, log):
    text = open(path).read()
    if path.endswith(".schedule"):
        r = sh(["cargo", "build", "--release", "--offline"], THREADS_DIR)
        if r.returncode != 0:
            log("HARNESS-ERROR: fbthreads does not build")
            return 2
        r = subprocess.run([FBTHREADS, "replay", path], stdout=subprocess.PIPE, stderr=subprocess.DEVNULL, text=True)
        print(r.stdout, end="")
        return r.returncode
    m = re.search(r"^# replay: (.*)$", text, re.M)
    if not m:
        log("HARNESS-ERROR: no replay command in file")
        return 2
    hang = "# failure=no result within" in text
    pr, out = sh_group(["bash", "-c", m.group(1)], VERIF, ENV, 1200 if hang else 7200)
    if pr is None:
        print("REPRODUCED: no result within the time limit (endless loop or livelock)" if hang else "NOT-REPRODUCED: the replay did not finish within 2 h")
        return 1 if hang else 0

    class _R:
        pass
    r = _R()
    r.stdout = out
    failed, first, _ = miri_verdict(r.stdout)
    if failed:
        print("REPRODUCED: %s" % first)
        return 1
    print("NOT-REPRODUCED")
    return 0
