//! fbthreads — layer L2: the crate's waker machinery under shuttle's seeded schedulers.
//!
//! One execution = one poller thread (the executor) + 1..3 waker threads sharing the child wakers.
//! Every atomic of cordyceps' MPSC queue, of diatomic-waker's cell and of the per-slot spin lock is
//! a scheduling point (stand-in `loom`/`spin` crates on shuttle), and so is every waker vtable
//! entry (probe). The workload itself is drawn from `shuttle::rand`, so a recorded schedule is one
//! exactly repeatable execution.

mod facade {
    pub use shuttle::rand::{thread_rng, Rng};
    pub use shuttle::sync::{Condvar, Mutex};
    pub use shuttle::thread::{spawn, yield_now};
    /// share of waker threads that start only after the poller's first poll
    pub const GATE_PROB: f64 = 0.6;
    pub fn thread_token() -> u64 {
        let id = shuttle::thread::current().id();
        let mut h = std::collections::hash_map::DefaultHasher::new();
        std::hash::Hash::hash(&id, &mut h);
        std::hash::Hasher::finish(&h)
    }
    /// a plain scheduling point (not a yield: PCT must not deprioritise the thread)
    pub fn switch() {
        shuttle::thread::sleep(std::time::Duration::ZERO);
    }
    use std::cell::RefCell;
    thread_local! {
        static S: RefCell<crate::reg::State> = RefCell::new(crate::reg::State::default());
    }
    /// Probe state: one shuttle runner lives on one OS thread, its simulated threads are
    /// coroutines on it, so a thread-local is shared by exactly one execution at a time.
    pub fn with_state<R>(f: impl FnOnce(&mut crate::reg::State) -> R) -> Option<R> {
        S.with(|s| s.try_borrow_mut().ok().map(|mut s| f(&mut s)))
    }
}
mod reg;
mod scenario;

use scenario::*;
use shuttle::scheduler::{PctScheduler, RandomScheduler, UrwRandomScheduler};
use shuttle::{Config, FailurePersistence, MaxSteps, Runner};
use std::panic::{catch_unwind, AssertUnwindSafe};
use std::sync::atomic::Ordering;
use std::time::Instant;

// ---------------------------------------------------------------------------------------------

fn arg_val(args: &[String], name: &str) -> Option<String> {
    args.iter().position(|a| a == name).and_then(|i| args.get(i + 1).cloned())
}

fn config(dir: Option<&str>) -> Config {
    let mut c = Config::new();
    c.max_steps = MaxSteps::FailAfter(300_000);
    c.failure_persistence = match dir {
        Some(d) => FailurePersistence::File(Some(d.into())),
        None => FailurePersistence::None,
    };
    c.silence_warnings = true;
    c
}

fn main() {
    let args: Vec<String> = std::env::args().collect();
    let cmd = args.get(1).map(|s| s.as_str()).unwrap_or("");
    reg::install();
    match cmd {
        "check" => std::process::exit(cmd_check(&args)),
        "replay" => std::process::exit(cmd_replay(&args)),
        _ => {
            eprintln!("usage: fbthreads check --prop C01|C03 --iters N --seed N --workers N --out file --replays dir\n       fbthreads replay <schedule-file> --prop C01|C03 --threads T --children C");
            std::process::exit(2);
        }
    }
}

fn cmd_replay(args: &[String]) -> i32 {
    let path = args.get(2).cloned().unwrap_or_default();
    let text = match std::fs::read_to_string(&path) {
        Ok(t) => t,
        Err(e) => {
            eprintln!("replay: {}", e);
            return 2;
        }
    };
    // header lines written by `check`: "# key=value"
    let mut mode = Mode::Liveness;
    let mut threads = 3;
    let mut children = 5;
    let mut sched = String::new();
    for l in text.lines() {
        if let Some(h) = l.strip_prefix("# ") {
            if let Some(v) = h.strip_prefix("mode=") {
                mode = if v == "Lifetime" { Mode::Lifetime } else { Mode::Liveness };
            } else if let Some(v) = h.strip_prefix("threads=") {
                threads = v.parse().unwrap_or(3);
            } else if let Some(v) = h.strip_prefix("children=") {
                children = v.parse().unwrap_or(5);
            }
        } else if !l.trim().is_empty() {
            sched.push_str(l.trim());
        }
    }
    let r = catch_unwind(AssertUnwindSafe(|| {
        let scheduler = shuttle::scheduler::ReplayScheduler::new_from_encoded(&sched);
        let runner = Runner::new(scheduler, config(None));
        runner.run(move || scenario(mode, threads, children));
    }));
    match r {
        Err(p) => {
            let msg = p.downcast_ref::<String>().cloned().or_else(|| p.downcast_ref::<&str>().map(|s| s.to_string())).unwrap_or_default();
            let first = msg.lines().next().unwrap_or("");
            if first.starts_with("scheduled task is not runnable") || first.contains("schedule") && first.contains("expected") {
                println!("NOT-REPRODUCED (the recorded schedule no longer applies: the code under test changed)");
                0
            } else {
                println!("REPRODUCED: {}", &first[..first.len().min(300)]);
                1
            }
        }
        Ok(()) => {
            println!("NOT-REPRODUCED");
            0
        }
    }
}

fn cmd_check(args: &[String]) -> i32 {
    let prop = arg_val(args, "--prop").unwrap_or("C01".into());
    let iters: usize = arg_val(args, "--iters").and_then(|s| s.parse().ok()).unwrap_or(20_000);
    let seed: u64 = arg_val(args, "--seed").and_then(|s| s.parse().ok()).unwrap_or(20261002);
    let workers: usize = arg_val(args, "--workers").and_then(|s| s.parse().ok()).unwrap_or(16);
    let out = arg_val(args, "--out");
    let replays = arg_val(args, "--replays").unwrap_or("/verif/replays".into());
    let mode = if prop == "C03" { Mode::Lifetime } else { Mode::Liveness };
    let t0 = Instant::now();
    // silence shuttle's own panic printing: failures are reported below
    if std::env::var("FB_VERBOSE").is_err() { std::panic::set_hook(Box::new(|_| {})); }
    // portfolio: PCT depth 1..5 is primary, uniform random and URW secondary
    let results: Vec<(String, u64, Result<(), (String, String, usize, usize)>)> = std::thread::scope(|s| {
        let hs: Vec<_> = (0..workers)
            .map(|w| {
                let replays = replays.clone();
                s.spawn(move || {
                    let wseed = seed ^ ((w as u64 + 1).wrapping_mul(0x9E3779B97F4A7C15));
                    let dir = format!("{}/.l2-{}-{}", replays, std::process::id(), w);
                    let _ = std::fs::create_dir_all(&dir);
                    // scenario sizes shrink from large to small so that the smallest failing one is reported
                    let (threads, children) = match w % 4 {
                        0 => (3, 5),
                        1 => (2, 4),
                        2 => (3, 3),
                        _ => (2, 6),
                    };
                    let (name, r) = match w % 8 {
                        0 | 1 | 2 | 3 | 4 => {
                            let depth = 1 + (w % 5);
                            let name = format!("pct{}", depth);
                            let sch = PctScheduler::new_from_seed(wseed, depth, iters);
                            let runner = Runner::new(sch, config(Some(&dir)));
                            (name, catch_unwind(AssertUnwindSafe(|| runner.run(move || scenario(mode, threads, children)))))
                        }
                        5 | 6 => {
                            let sch = RandomScheduler::new_from_seed(wseed, iters);
                            let runner = Runner::new(sch, config(Some(&dir)));
                            ("random".to_string(), catch_unwind(AssertUnwindSafe(|| runner.run(move || scenario(mode, threads, children)))))
                        }
                        _ => {
                            let sch = UrwRandomScheduler::new_from_seed(wseed, iters);
                            let runner = Runner::new(sch, config(Some(&dir)));
                            ("urw".to_string(), catch_unwind(AssertUnwindSafe(|| runner.run(move || scenario(mode, threads, children)))))
                        }
                    };
                    let res = match r {
                        Ok(_) => {
                            let _ = std::fs::remove_dir_all(&dir);
                            Ok(())
                        }
                        Err(p) => {
                            let msg = p
                                .downcast_ref::<String>()
                                .cloned()
                                .or_else(|| p.downcast_ref::<&str>().map(|s| s.to_string()))
                                .unwrap_or_else(|| "panic".to_string());
                            // find the persisted schedule
                            let mut file = String::new();
                            if let Ok(rd) = std::fs::read_dir(&dir) {
                                for e in rd.flatten() {
                                    file = e.path().to_string_lossy().to_string();
                                }
                            }
                            Err((msg, file, threads, children))
                        }
                    };
                    (name, wseed, res)
                })
            })
            .collect();
        hs.into_iter().map(|h| h.join().unwrap()).collect()
    });
    let wall = t0.elapsed().as_secs_f64();
    let mut violations = 0;
    let mut vio_json = vec![];
    let mut per_sched = std::collections::BTreeMap::<String, u64>::new();
    for (name, wseed, r) in &results {
        *per_sched.entry(name.clone()).or_default() += 1;
        if let Err((msg, file, threads, children)) = r {
            // classify: which property does this failure speak about?
            let first = msg.lines().next().unwrap_or("").to_string();
            let liveness_failure = first.contains("deadlock") || first.contains("exceeded max_steps") || first.contains("C02") || first.contains("C11") || first.contains("C05") || first.contains("C04/C07") || first.contains("C07") || first.contains("C10");
            let about = if first.contains("C03") || first.contains("UnsafeCell") {
                "C03"
            } else if liveness_failure {
                "C01"
            } else if mode == Mode::Lifetime {
                // an unexplained panic while wakers and collection die in arbitrary order: memory
                // was corrupted (in this layer a use-after-free is real)
                "C03"
            } else {
                "C01"
            };
            let counts = about == prop;
            // keep the schedule with a header so that replay knows the scenario parameters
            let dst = format!("{}/{}-l2-{}-{:016x}.schedule", replays, prop, name, wseed);
            let sched = std::fs::read_to_string(file).unwrap_or_default();
            let body = format!("# mode={:?}\n# threads={}\n# children={}\n# scheduler={}\n# failure={}\n{}\n", mode, threads, children, name, first, sched.trim());
            let _ = std::fs::write(&dst, body);
            vio_json.push(format!(
                "{{\"scheduler\":\"{}\",\"seed\":{},\"about\":\"{}\",\"failure\":{:?},\"replay\":\"{}\",\"threads\":{},\"children\":{}}}",
                name, wseed, about, first, dst, threads, children
            ));
            if counts {
                violations += 1;
                println!("VIOLATION property={} replay={}", prop, dst);
                println!("  L2 scheduler={} threads={} children={}: {}", name, threads, children, first);
            } else {
                println!("INCIDENTAL (speaks about {}): {} [{}]", about, first, dst);
            }
        }
    }
    // scenario minimisation: shuttle does not shrink schedules, so re-search smaller scenarios
    // (fewer waker threads, fewer children) and keep the smallest one that still fails
    if violations > 0 {
        let sizes = [(1usize, 1usize), (1, 2), (2, 2), (1, 3), (2, 3), (1, 4), (2, 4)];
        'outer: for (threads, children) in sizes {
            for depth in [2usize, 3, 1, 4] {
                let dir = format!("{}/.l2-{}-min", replays, std::process::id());
                let _ = std::fs::remove_dir_all(&dir);
                let _ = std::fs::create_dir_all(&dir);
                let sch = PctScheduler::new_from_seed(seed ^ (depth as u64) << 8 ^ (threads * 16 + children) as u64, depth, 20_000);
                let runner = Runner::new(sch, config(Some(&dir)));
                let r = catch_unwind(AssertUnwindSafe(|| runner.run(move || scenario(mode, threads, children))));
                if let Err(p) = r {
                    let msg = p
                        .downcast_ref::<String>()
                        .cloned()
                        .or_else(|| p.downcast_ref::<&str>().map(|s| s.to_string()))
                        .unwrap_or_else(|| "panic".to_string());
                    let first = msg.lines().next().unwrap_or("").to_string();
                    let mut file = String::new();
                    if let Ok(rd) = std::fs::read_dir(&dir) {
                        for e in rd.flatten() {
                            file = e.path().to_string_lossy().to_string();
                        }
                    }
                    let dst = format!("{}/{}-l2-min-{}x{}.schedule", replays, prop, threads, children);
                    let sched = std::fs::read_to_string(file).unwrap_or_default();
                    let body = format!(
                        "# mode={:?}\n# threads={}\n# children={}\n# scheduler=pct{}\n# failure={}\n{}\n",
                        mode, threads, children, depth, first, sched.trim()
                    );
                    let _ = std::fs::write(&dst, body);
                    println!("VIOLATION property={} replay={}", prop, dst);
                    println!("  L2 minimised scenario: threads={} children={} (schedule of {} characters): {}", threads, children, sched.trim().len(), first);
                    break 'outer;
                }
            }
        }
    }
    // clean scratch dirs
    if let Ok(rd) = std::fs::read_dir(&replays) {
        for e in rd.flatten() {
            let n = e.file_name().to_string_lossy().to_string();
            if n.starts_with(&format!(".l2-{}-", std::process::id())) {
                let _ = std::fs::remove_dir_all(e.path());
            }
        }
    }
    let distinct = ORDER_HASHES.lock().ok().and_then(|g| g.as_ref().map(|s| s.len())).unwrap_or(0);
    let hits = reg::hits_total();
    let ev = format!(
        "{{\"layer\":\"L2 fbthreads (shuttle; cordyceps, diatomic-waker and the slot lock on shuttle atomics)\",\"property_id\":\"{}\",\"seed\":{},\"executions\":{},\"iterations_per_worker\":{},\"workers\":{},\"schedulers\":{:?},\"distinct_event_orders\":{},\"polls\":{},\"pending_results\":{},\"task_parks\":{},\"waker_invocations\":{},\"wakes_overlapping_a_poll\":{},\"stale_wakes\":{},\"wakes_after_collection_dropped\":{},\"waker_clones_by_children\":{},\"collection_dropped_early\":{},\"fresh_task_wakers\":{},\"subjects\":{{\"FuturesUnorderedBounded\":{},\"FuturesUnordered\":{},\"FuturesOrdered\":{},\"MergeBounded\":{},\"MergeUnbounded\":{},\"FuturesOrderedBounded\":{},\"buffered_unordered\":{},\"buffered_ordered\":{},\"join_all\":{},\"try_join_all\":{},\"for_each_concurrent\":{},\"try_buffered_unordered\":{}}},\"reach_probes\":{{\"budget_exhausted\":{},\"queue_inconsistent\":{},\"vacant_slot_popped\":{},\"group_created\":{},\"group_discarded\":{},\"group_rotated\":{},\"merge_rearmed\":{},\"merge_source_removed\":{}}},\"waker_blocks_audited\":{},\"unsafe_cell_overlaps\":{},\"violations\":[{}],\"violations_counted\":{},\"wall_s\":{:.2}}}",
        prop,
        seed,
        EXECS.load(Ordering::Relaxed),
        iters,
        workers,
        per_sched,
        distinct,
        POLLS.load(Ordering::Relaxed),
        PENDINGS.load(Ordering::Relaxed),
        PARKS.load(Ordering::Relaxed),
        WAKES.load(Ordering::Relaxed),
        WAKES_DURING_POLL.load(Ordering::Relaxed),
        STALE_WAKES.load(Ordering::Relaxed),
        WAKES_AFTER_DROP.load(Ordering::Relaxed),
        CLONES.load(Ordering::Relaxed),
        EARLY_DROPS.load(Ordering::Relaxed),
        FRESH_WAKERS.load(Ordering::Relaxed),
        SUBJECTS[0].load(Ordering::Relaxed),
        SUBJECTS[1].load(Ordering::Relaxed),
        SUBJECTS[2].load(Ordering::Relaxed),
        SUBJECTS[3].load(Ordering::Relaxed),
        SUBJECTS[4].load(Ordering::Relaxed),
        SUBJECTS[5].load(Ordering::Relaxed),
        SUBJECTS[6].load(Ordering::Relaxed),
        SUBJECTS[7].load(Ordering::Relaxed),
        SUBJECTS[8].load(Ordering::Relaxed),
        SUBJECTS[9].load(Ordering::Relaxed),
        SUBJECTS[10].load(Ordering::Relaxed),
        SUBJECTS[11].load(Ordering::Relaxed),
        hits[0],
        hits[1],
        hits[2],
        hits[3],
        hits[4],
        hits[5],
        hits[7],
        hits[8],
        reg::blocks_total(),
        loom::cell::OVERLAPS.load(Ordering::Relaxed),
        vio_json.join(","),
        violations,
        wall
    );
    if let Some(o) = out {
        if std::fs::write(&o, &ev).is_err() {
            eprintln!("HARNESS-ERROR: cannot write {}", o);
            return 2;
        }
    }
    println!(
        "fbthreads done property={} executions={} distinct_orders={} wall={:.1}s violations={}",
        prop,
        EXECS.load(Ordering::Relaxed),
        distinct,
        wall,
        violations
    );
    if violations > 0 {
        1
    } else {
        0
    }
}
