//! The multi-threaded scenario shared by L2 (shuttle) and L3 (std threads under Miri). Everything
//! that differs between the two (mutex, condvar, spawn, yield, random source, probe state) comes
//! from `crate::facade`.

use crate::facade::{spawn, thread_rng, yield_now, Condvar, Mutex, Rng};
use crate::reg;
use futures_buffered::{
    join_all, try_join_all, BufferedStreamExt, BufferedTryStreamExt, FuturesOrdered, FuturesOrderedBounded, FuturesUnordered, FuturesUnorderedBounded, JoinAll, MergeBounded,
    MergeUnbounded,
};
use futures_core::Stream;
use std::future::Future;
use std::pin::Pin;
use std::sync::atomic::{AtomicU64, Ordering};
use std::sync::Arc;
use std::task::{Context, Poll, Wake, Waker};

// ---------------------------------------------------------------------------------------------
// statistics (plain std atomics: not scheduling points)

pub static EXECS: AtomicU64 = AtomicU64::new(0);
pub static POLLS: AtomicU64 = AtomicU64::new(0);
pub static PENDINGS: AtomicU64 = AtomicU64::new(0);
pub static WAKES: AtomicU64 = AtomicU64::new(0);
pub static WAKES_DURING_POLL: AtomicU64 = AtomicU64::new(0);
pub static STALE_WAKES: AtomicU64 = AtomicU64::new(0);
pub static WAKES_AFTER_DROP: AtomicU64 = AtomicU64::new(0);
pub static CLONES: AtomicU64 = AtomicU64::new(0);
pub static EARLY_DROPS: AtomicU64 = AtomicU64::new(0);
pub static FRESH_WAKERS: AtomicU64 = AtomicU64::new(0);
pub static PARKS: AtomicU64 = AtomicU64::new(0);
pub static ORDER_HASHES: std::sync::Mutex<Option<std::collections::HashSet<u64>>> = std::sync::Mutex::new(None);
pub static SUBJECTS: [AtomicU64; 12] = [AtomicU64::new(0), AtomicU64::new(0), AtomicU64::new(0), AtomicU64::new(0), AtomicU64::new(0), AtomicU64::new(0), AtomicU64::new(0), AtomicU64::new(0), AtomicU64::new(0), AtomicU64::new(0), AtomicU64::new(0), AtomicU64::new(0)];

// plain flags for statistics only (relaxed; never used for synchronisation)
static IN_POLL_FLAG: std::sync::atomic::AtomicBool = std::sync::atomic::AtomicBool::new(false);
static GONE_FLAG: std::sync::atomic::AtomicBool = std::sync::atomic::AtomicBool::new(false);
struct FlagCell(&'static std::sync::atomic::AtomicBool);
impl FlagCell {
    fn with<R>(&self, f: impl FnOnce(&FlagCell) -> R) -> R {
        f(self)
    }
    fn get(&self) -> bool {
        self.0.load(Ordering::Relaxed)
    }
    fn set(&self, v: bool) {
        self.0.store(v, Ordering::Relaxed)
    }
}
static IN_POLL: FlagCell = FlagCell(&IN_POLL_FLAG);
static COLLECTION_GONE: FlagCell = FlagCell(&GONE_FLAG);

// ---------------------------------------------------------------------------------------------
// task waker: a flag the poller parks on. Only the flag given to the most recent poll is waited on.

struct TaskFlag {
    set: Mutex<bool>,
    cv: Condvar,
}
impl Wake for TaskFlag {
    fn wake(self: Arc<Self>) {
        self.wake_by_ref();
    }
    fn wake_by_ref(self: &Arc<Self>) {
        *self.set.lock().unwrap() = true;
        self.cv.notify_all();
    }
}
impl TaskFlag {
    fn new() -> Arc<Self> {
        Arc::new(TaskFlag {
            set: Mutex::new(false),
            cv: Condvar::new(),
        })
    }
    fn wait(&self) {
        PARKS.fetch_add(1, Ordering::Relaxed);
        let mut g = self.set.lock().unwrap();
        while !*g {
            g = self.cv.wait(g).unwrap();
        }
        *g = false;
    }
}

// ---------------------------------------------------------------------------------------------
// Every child waker the environment holds is wrapped, so that the environment's own books say how
// many wakers point into a waker block (independent of the crate's clone/drop probes).

pub struct HW(Option<Waker>);
impl HW {
    fn new(w: Waker) -> HW {
        reg::held(w.data() as usize, 1);
        HW(Some(w))
    }
    fn dup(&self) -> HW {
        let w = self.0.as_ref().unwrap();
        let a = w.data() as usize;
        reg::in_call(a, true);
        let c = w.clone();
        reg::in_call(a, false);
        HW::new(c)
    }
    fn wake(mut self) {
        let w = self.0.take().unwrap();
        let a = w.data() as usize;
        // from here on the reference belongs to the crate's `wake`
        reg::held(a, -1);
        reg::in_call(a, true);
        w.wake();
        reg::in_call(a, false);
    }
    fn wake_by_ref(&self) {
        let w = self.0.as_ref().unwrap();
        let a = w.data() as usize;
        reg::in_call(a, true);
        w.wake_by_ref();
        reg::in_call(a, false);
    }
}
impl Drop for HW {
    fn drop(&mut self) {
        if let Some(w) = self.0.take() {
            if std::thread::panicking() {
                // a violation is being reported: the block may be gone, do not run crate code on it
                std::mem::forget(w);
                return;
            }
            let a = w.data() as usize;
            reg::held(a, -1);
            reg::in_call(a, true);
            drop(w);
            reg::in_call(a, false);
        }
    }
}

// ---------------------------------------------------------------------------------------------
// children

struct ChanSt {
    ready: bool,
    /// streams: items available
    avail: u32,
    closed: bool,
    waker: Option<HW>,
    done: bool,
    polled_after_done: bool,
}
struct Chan {
    st: Mutex<ChanSt>,
    /// "atomic" flavour: readiness is a plain atomic flag (Release store / Acquire load) and the
    /// child keeps using the waker of its first poll, so that a re-poll touches no lock at all.
    /// The only thing that then orders a wake against a concurrent re-poll is the crate itself.
    atomic: bool,
    aready: std::sync::atomic::AtomicBool,
}
impl Chan {
    fn new(atomic: bool) -> Arc<Chan> {
        Arc::new(Chan {
            atomic,
            aready: std::sync::atomic::AtomicBool::new(false),
            st: Mutex::new(ChanSt {
                ready: false,
                avail: 0,
                closed: false,
                waker: None,
                done: false,
                polled_after_done: false,
            }),
        })
    }
}

struct ChanFut {
    ch: Arc<Chan>,
    id: usize,
    registered: bool,
    finished: bool,
}
static ATOMIC_POLLED_AFTER_DONE: std::sync::atomic::AtomicBool = std::sync::atomic::AtomicBool::new(false);
impl Unpin for ChanFut {}
impl Future for ChanFut {
    type Output = usize;
    fn poll(mut self: Pin<&mut Self>, cx: &mut Context<'_>) -> Poll<usize> {
        if self.ch.atomic {
            if self.finished {
                ATOMIC_POLLED_AFTER_DONE.store(true, Ordering::Relaxed);
                return Poll::Pending;
            }
            if self.ch.aready.load(Ordering::Acquire) {
                self.finished = true;
                self.ch.st.lock().unwrap().done = true;
                return Poll::Ready(self.id);
            }
            if !self.registered {
                self.registered = true;
                CLONES.fetch_add(1, Ordering::Relaxed);
                let w = HW::new(cx.waker().clone());
                let old = self.ch.st.lock().unwrap().waker.replace(w);
                drop(old);
                // the flag may have been set while we registered
                if self.ch.aready.load(Ordering::Acquire) {
                    self.finished = true;
                    self.ch.st.lock().unwrap().done = true;
                    return Poll::Ready(self.id);
                }
            }
            return Poll::Pending;
        }
        let mut st = self.ch.st.lock().unwrap();
        if st.done {
            st.polled_after_done = true;
            return Poll::Pending;
        }
        if st.ready {
            st.done = true;
            Poll::Ready(self.id)
        } else {
            CLONES.fetch_add(1, Ordering::Relaxed);
            let w = HW::new(cx.waker().clone());
            let old = st.waker.replace(w);
            drop(st);
            drop(old);
            Poll::Pending
        }
    }
}

struct ChanStream {
    ch: Arc<Chan>,
    id: usize,
    seq: u32,
}
impl Stream for ChanStream {
    type Item = (usize, u32);
    fn poll_next(mut self: Pin<&mut Self>, cx: &mut Context<'_>) -> Poll<Option<(usize, u32)>> {
        let mut st = self.ch.st.lock().unwrap();
        if st.done {
            st.polled_after_done = true;
            return Poll::Pending;
        }
        if st.avail > 0 {
            st.avail -= 1;
            drop(st);
            let s = self.seq;
            self.seq += 1;
            Poll::Ready(Some((self.id, s)))
        } else if st.closed {
            st.done = true;
            Poll::Ready(None)
        } else {
            CLONES.fetch_add(1, Ordering::Relaxed);
            let w = HW::new(cx.waker().clone());
            let old = st.waker.replace(w);
            drop(st);
            drop(old);
            Poll::Pending
        }
    }
}

// ---------------------------------------------------------------------------------------------
// subjects

/// Try-future: child `fail` resolves to `Err(id)`, the others to `Ok(id)`.
struct TryFut {
    inner: ChanFut,
    fail: bool,
}
impl Future for TryFut {
    type Output = Result<usize, usize>;
    fn poll(mut self: Pin<&mut Self>, cx: &mut Context<'_>) -> Poll<Result<usize, usize>> {
        let fail = self.fail;
        match Pin::new(&mut self.inner).poll(cx) {
            Poll::Ready(i) => Poll::Ready(if fail { Err(i) } else { Ok(i) }),
            Poll::Pending => Poll::Pending,
        }
    }
}
/// Unit future for for_each_concurrent (completion is visible in the channel's `done` flag).
struct UnitFut(ChanFut);
impl Future for UnitFut {
    type Output = ();
    fn poll(mut self: Pin<&mut Self>, cx: &mut Context<'_>) -> Poll<()> {
        Pin::new(&mut self.0).poll(cx).map(|_| ())
    }
}
/// Upstream of try_buffered_unordered: `Ok(future)` items.
struct TrySource {
    futs: Vec<Option<TryFut>>,
    next: usize,
}
impl Stream for TrySource {
    type Item = Result<TryFut, usize>;
    fn poll_next(mut self: Pin<&mut Self>, _cx: &mut Context<'_>) -> Poll<Option<Self::Item>> {
        let i = self.next;
        if i < self.futs.len() {
            self.next += 1;
            Poll::Ready(self.futs[i].take().map(Ok))
        } else {
            Poll::Ready(None)
        }
    }
}
impl Unpin for TrySource {}

/// Upstream of the adapters: hands out the futures one by one, always ready.
struct FutSource {
    futs: Vec<Option<ChanFut>>,
    next: usize,
}
impl Stream for FutSource {
    type Item = ChanFut;
    fn poll_next(mut self: Pin<&mut Self>, _cx: &mut Context<'_>) -> Poll<Option<ChanFut>> {
        let i = self.next;
        if i < self.futs.len() {
            self.next += 1;
            Poll::Ready(self.futs[i].take())
        } else {
            Poll::Ready(None)
        }
    }
}
impl Unpin for FutSource {}

enum Subj {
    Fob(FuturesOrderedBounded<ChanFut>),
    Bu(Pin<Box<futures_buffered::BufferUnordered<FutSource>>>),
    Bo(Pin<Box<futures_buffered::BufferedOrdered<FutSource>>>),
    Ja(JoinAll<ChanFut>),
    Tja(futures_buffered::TryJoinAll<TryFut>),
    Fec(Pin<Box<dyn Future<Output = ()>>>),
    Tbu(Pin<Box<futures_buffered::TryBufferUnordered<TrySource>>>),
    Fub(FuturesUnorderedBounded<ChanFut>),
    Fu(FuturesUnordered<ChanFut>),
    Fo(FuturesOrdered<ChanFut>),
    Mb(MergeBounded<ChanStream>),
    Mu(MergeUnbounded<ChanStream>),
}

enum Out {
    Joined(Vec<usize>),
    TryJoined(Result<Vec<usize>, usize>),
    Done,
    TryItem(Result<usize, usize>),
    Pending,
    Fut(usize),
    Item(usize, u32),
    End,
}

impl Subj {
    fn poll(&mut self, cx: &mut Context<'_>) -> Out {
        match self {
            Subj::Fob(s) => match Pin::new(s).poll_next(cx) {
                Poll::Pending => Out::Pending,
                Poll::Ready(Some(i)) => Out::Fut(i),
                Poll::Ready(None) => Out::End,
            },
            Subj::Bu(s) => match s.as_mut().poll_next(cx) {
                Poll::Pending => Out::Pending,
                Poll::Ready(Some(i)) => Out::Fut(i),
                Poll::Ready(None) => Out::End,
            },
            Subj::Bo(s) => match s.as_mut().poll_next(cx) {
                Poll::Pending => Out::Pending,
                Poll::Ready(Some(i)) => Out::Fut(i),
                Poll::Ready(None) => Out::End,
            },
            Subj::Tja(s) => match Pin::new(s).poll(cx) {
                Poll::Pending => Out::Pending,
                Poll::Ready(r) => Out::TryJoined(r),
            },
            Subj::Fec(s) => match s.as_mut().poll(cx) {
                Poll::Pending => Out::Pending,
                Poll::Ready(()) => Out::Done,
            },
            Subj::Tbu(s) => match s.as_mut().poll_next(cx) {
                Poll::Pending => Out::Pending,
                Poll::Ready(Some(r)) => Out::TryItem(r),
                Poll::Ready(None) => Out::End,
            },
            Subj::Ja(s) => match Pin::new(s).poll(cx) {
                Poll::Pending => Out::Pending,
                Poll::Ready(v) => Out::Joined(v),
            },
            Subj::Fub(s) => match Pin::new(s).poll_next(cx) {
                Poll::Pending => Out::Pending,
                Poll::Ready(Some(i)) => Out::Fut(i),
                Poll::Ready(None) => Out::End,
            },
            Subj::Fu(s) => match Pin::new(s).poll_next(cx) {
                Poll::Pending => Out::Pending,
                Poll::Ready(Some(i)) => Out::Fut(i),
                Poll::Ready(None) => Out::End,
            },
            Subj::Fo(s) => match Pin::new(s).poll_next(cx) {
                Poll::Pending => Out::Pending,
                Poll::Ready(Some(i)) => Out::Fut(i),
                Poll::Ready(None) => Out::End,
            },
            Subj::Mb(s) => match Pin::new(s).poll_next(cx) {
                Poll::Pending => Out::Pending,
                Poll::Ready(Some((i, q))) => Out::Item(i, q),
                Poll::Ready(None) => Out::End,
            },
            Subj::Mu(s) => match Pin::new(s).poll_next(cx) {
                Poll::Pending => Out::Pending,
                Poll::Ready(Some((i, q))) => Out::Item(i, q),
                Poll::Ready(None) => Out::End,
            },
        }
    }
}

// ---------------------------------------------------------------------------------------------
// waker-thread operations

#[derive(Clone, Copy, Debug)]
enum WOp {
    /// make ready (or feed one item / close) and wake by value
    Fire,
    /// wake_by_ref on a clone, drop the clone
    SpuriousRef,
    /// clone, wake the clone by value
    CloneWake,
    /// clone, drop
    CloneDrop,
    /// clone and keep until the thread ends (invoked or dropped then: stale / after-drop wakes)
    Keep,
    /// burst of duplicate wakes
    Burst,
    /// invoke (by reference) a waker kept earlier for this child — typically right after the child
    /// was fired, i.e. a stale wake racing with the reuse of its slot
    StaleRef,
}

fn invoke(w: HW, by_ref: bool) {
    WAKES.fetch_add(1, Ordering::Relaxed);
    if IN_POLL.with(|p| p.get()) {
        WAKES_DURING_POLL.fetch_add(1, Ordering::Relaxed);
    }
    if COLLECTION_GONE.with(|p| p.get()) {
        WAKES_AFTER_DROP.fetch_add(1, Ordering::Relaxed);
    }
    reg::note_order(1);
    if by_ref {
        w.wake_by_ref();
        drop(w);
    } else {
        w.wake();
    }
}

/// Some waker threads only start once the poller has polled once (so that wakers exist and the
/// wakes land on a sleeping or polling task rather than before the first poll).
struct Gate {
    open: Mutex<bool>,
    cv: Condvar,
}
impl Gate {
    fn wait(&self) {
        let mut g = self.open.lock().unwrap();
        while !*g {
            g = self.cv.wait(g).unwrap();
        }
    }
    fn open(&self) {
        *self.open.lock().unwrap() = true;
        self.cv.notify_all();
    }
}

fn waker_thread(chans: Vec<(Arc<Chan>, bool, u32)>, ops: Vec<(usize, WOp)>, gate: Option<Arc<Gate>>, gone: Option<Arc<Gate>>) {
    if let Some(g) = gate {
        g.wait();
    }
    let mut kept: Vec<(usize, HW)> = vec![];
    let mut fired = vec![0u32; chans.len()];
    for (c, op) in ops {
        let (ch, is_stream, items) = &chans[c];
        match op {
            WOp::Fire if ch.atomic => {
                // a waker fetched earlier (no lock between the store and the wake), if we have one
                let pre = kept.iter().position(|(k, _)| *k == c).map(|i| kept.swap_remove(i).1);
                ch.aready.store(true, Ordering::Release);
                match pre {
                    Some(w) => invoke(w, true),
                    None => {
                        let w = ch.st.lock().unwrap().waker.as_ref().map(|w| w.dup());
                        if let Some(w) = w {
                            invoke(w, false);
                        }
                    }
                }
            }
            WOp::Fire => {
                let w = {
                    let mut st = ch.st.lock().unwrap();
                    if *is_stream {
                        if fired[c] < *items {
                            st.avail += 1;
                        } else {
                            st.closed = true;
                        }
                        fired[c] += 1;
                    } else {
                        st.ready = true;
                    }
                    st.waker.take()
                };
                if let Some(w) = w {
                    invoke(w, false);
                }
            }
            WOp::SpuriousRef => {
                let w = ch.st.lock().unwrap().waker.as_ref().map(|w| w.dup());
                if let Some(w) = w {
                    invoke(w, true);
                }
            }
            WOp::CloneWake => {
                let w = ch.st.lock().unwrap().waker.as_ref().map(|w| w.dup());
                if let Some(w) = w {
                    let w2 = w.dup();
                    drop(w);
                    invoke(w2, false);
                }
            }
            WOp::CloneDrop => {
                let w = ch.st.lock().unwrap().waker.as_ref().map(|w| w.dup());
                drop(w);
            }
            WOp::Keep => {
                let w = ch.st.lock().unwrap().waker.as_ref().map(|w| w.dup());
                if let Some(w) = w {
                    kept.push((c, w));
                }
            }
            WOp::StaleRef => {
                if let Some((_, w)) = kept.iter().find(|(k, _)| *k == c) {
                    WAKES.fetch_add(1, Ordering::Relaxed);
                    STALE_WAKES.fetch_add(1, Ordering::Relaxed);
                    reg::note_order(1);
                    w.wake_by_ref();
                }
            }
            WOp::Burst => {
                let w = ch.st.lock().unwrap().waker.as_ref().map(|w| w.dup());
                if let Some(w) = w {
                    for _ in 0..3 {
                        WAKES.fetch_add(1, Ordering::Relaxed);
                        w.wake_by_ref();
                    }
                }
            }
        }
    }
    // kept wakers: most of their children are finished by now (stale); some threads hold on to
    // them until the collection itself has been dropped
    if let Some(g) = gone {
        if !kept.is_empty() {
            g.wait();
        }
    }
    for (i, (c, w)) in kept.into_iter().enumerate() {
        let done = chans[c].0.st.lock().unwrap().done;
        if done {
            STALE_WAKES.fetch_add(1, Ordering::Relaxed);
        }
        if i % 2 == 0 {
            invoke(w, i % 4 == 0);
        } else {
            drop(w);
        }
    }
}

#[derive(Clone, Copy, PartialEq, Eq, Debug)]
pub enum Mode {
    /// C01: run to completion; a lost wake-up is a deadlock
    Liveness,
    /// C03: additionally drop the collection at a drawn point while waker threads still run
    Lifetime,
}

pub fn scenario(mode: Mode, max_threads: usize, max_children: usize) {
    reg::begin_execution();
    COLLECTION_GONE.with(|p| p.set(false));
    EXECS.fetch_add(1, Ordering::Relaxed);
    let mut rng = thread_rng();
    let kind = rng.gen_range(0..12usize);
    SUBJECTS[kind].fetch_add(1, Ordering::Relaxed);
    let is_stream = kind == 3 || kind == 4;
    let n = rng.gen_range(1..=max_children);
    let n_threads = rng.gen_range(1..=max_threads);
    let chans: Vec<(Arc<Chan>, bool, u32)> = (0..n)
        .map(|_| (Chan::new(!is_stream && rng.gen_bool(0.35)), is_stream, if is_stream { rng.gen_range(0..3u32) } else { 0 }))
        .collect();
    // some children are ready before anything is polled
    for (ch, s, items) in &chans {
        if rng.gen_bool(0.2) {
            let mut st = ch.st.lock().unwrap();
            if *s {
                if *items == 0 {
                    // nothing: will be closed by its thread
                } else {
                    // handled by the waker thread; keep the accounting simple
                }
            } else {
                st.ready = true;
            }
        }
    }
    let mk_fut = |i: usize| ChanFut {
        ch: chans[i].0.clone(),
        id: i,
        registered: false,
        finished: false,
    };
    let mk_stream = |i: usize| ChanStream {
        ch: chans[i].0.clone(),
        id: i,
        seq: 0,
    };
    let fail_ix: Option<usize> = if rng.gen_bool(0.4) { Some(rng.gen_range(0..n)) } else { None };
    // how many children are pushed up front; the rest is pushed by the poller between polls
    let upfront = rng.gen_range(1..=n);
    let mut subj = match kind {
        0 => {
            let cap = n + rng.gen_range(0..2usize);
            let mut s = FuturesUnorderedBounded::new(cap);
            for i in 0..upfront {
                s.push(mk_fut(i));
            }
            Subj::Fub(s)
        }
        1 => {
            let mut s = FuturesUnordered::with_capacity(1);
            for i in 0..upfront {
                s.push(mk_fut(i));
            }
            Subj::Fu(s)
        }
        2 => {
            let mut s = FuturesOrdered::with_capacity(1);
            for i in 0..upfront {
                if rng.gen_bool(0.3) {
                    s.push_front(mk_fut(i));
                } else {
                    s.push_back(mk_fut(i));
                }
            }
            Subj::Fo(s)
        }
        3 => {
            // bounded merge: capacity is fixed by collect()
            Subj::Mb((0..n).map(mk_stream).collect())
        }
        5 => {
            let mut s = FuturesOrderedBounded::new(n);
            for i in 0..upfront {
                if rng.gen_bool(0.3) {
                    s.push_front(mk_fut(i));
                } else {
                    s.push_back(mk_fut(i));
                }
            }
            Subj::Fob(s)
        }
        6 => {
            let lim = rng.gen_range(1..=n);
            let src = FutSource {
                futs: (0..n).map(|i| Some(mk_fut(i))).collect(),
                next: 0,
            };
            Subj::Bu(Box::pin(src.buffered_unordered(lim)))
        }
        7 => {
            let lim = rng.gen_range(1..=n);
            let src = FutSource {
                futs: (0..n).map(|i| Some(mk_fut(i))).collect(),
                next: 0,
            };
            Subj::Bo(Box::pin(src.buffered_ordered(lim)))
        }
        8 => Subj::Ja(join_all((0..n).map(mk_fut))),
        9 => {
            Subj::Tja(try_join_all((0..n).map(|i| TryFut {
                inner: mk_fut(i),
                fail: fail_ix == Some(i),
            })))
        }
        10 => {
            let lim = rng.gen_range(1..=n);
            let src = FutSource {
                futs: (0..n).map(|i| Some(mk_fut(i))).collect(),
                next: 0,
            };
            Subj::Fec(Box::pin(src.for_each_concurrent(lim, UnitFut)))
        }
        11 => {
            let lim = rng.gen_range(1..=n);
            let src = TrySource {
                futs: (0..n)
                    .map(|i| {
                        Some(TryFut {
                            inner: mk_fut(i),
                            fail: fail_ix == Some(i),
                        })
                    })
                    .collect(),
                next: 0,
            };
            Subj::Tbu(Box::pin(src.try_buffered_unordered(lim)))
        }
        _ => {
            let mut s = MergeUnbounded::new();
            for i in 0..upfront {
                s.push(mk_stream(i));
            }
            Subj::Mu(s)
        }
    };
    let upfront = if matches!(kind, 3 | 6 | 7 | 8 | 9 | 10 | 11) { n } else { upfront };

    // per-thread op lists: each child is owned by one thread, which fires it last
    let mut per_thread: Vec<Vec<(usize, WOp)>> = vec![vec![]; n_threads];
    for c in 0..n {
        let t = rng.gen_range(0..n_threads);
        let extra = rng.gen_range(0..3usize);
        for _ in 0..extra {
            let op = match rng.gen_range(0..5usize) {
                0 => WOp::SpuriousRef,
                1 => WOp::CloneWake,
                2 => WOp::CloneDrop,
                3 => WOp::Keep,
                _ => WOp::Burst,
            };
            // noise may come from any thread
            let t2 = rng.gen_range(0..n_threads);
            per_thread[t2].push((c, op));
        }
        let fires = if is_stream { chans[c].2 + 1 } else { 1 };
        if chans[c].0.atomic {
            // fetch the waker ahead of time so that nothing but the crate orders the wake
            per_thread[t].push((c, WOp::Keep));
        }
        let stale_after = !chans[c].0.atomic && rng.gen_bool(0.5);
        if stale_after {
            per_thread[t].push((c, WOp::Keep));
        }
        for _ in 0..fires {
            per_thread[t].push((c, WOp::Fire));
            if rng.gen_bool(0.3) {
                per_thread[t].push((c, WOp::Keep));
            }
        }
        if stale_after {
            // stale wakes right behind the completion: they race with the reuse of the slot
            for _ in 0..rng.gen_range(1..3usize) {
                per_thread[t].push((c, WOp::StaleRef));
            }
        }
    }
    // interleave the children inside a thread (order among different children is free, the
    // relative order per child is kept)
    let gate = Arc::new(Gate {
        open: Mutex::new(false),
        cv: Condvar::new(),
    });
    let gone_gate = Arc::new(Gate {
        open: Mutex::new(false),
        cv: Condvar::new(),
    });
    let handles: Vec<_> = per_thread
        .into_iter()
        .map(|ops| {
            let chans = chans.clone();
            let g = if rng.gen_bool(crate::facade::GATE_PROB) { Some(gate.clone()) } else { None };
            let d = if rng.gen_bool(0.5) { Some(gone_gate.clone()) } else { None };
            spawn(move || waker_thread(chans, ops, g, d))
        })
        .collect();

    // ---- the poller / executor ---------------------------------------------------------------
    let expected_items: u32 = if is_stream { chans.iter().map(|c| c.2).sum() } else { n as u32 };
    let mut got_futs = vec![false; n];
    let mut next_seq = vec![0u32; n];
    let mut collected = 0u32;
    let mut pushed = upfront;
    let drop_after: Option<u32> = if mode == Mode::Lifetime && rng.gen_bool(0.6) {
        Some(rng.gen_range(0..6u32))
    } else {
        None
    };
    let mut flag = TaskFlag::new();
    let mut polls = 0u32;
    let mut early = false;
    loop {
        if let Some(k) = drop_after {
            if polls >= k {
                early = true;
                break;
            }
        }
        if rng.gen_bool(0.4) {
            flag = TaskFlag::new();
            FRESH_WAKERS.fetch_add(1, Ordering::Relaxed);
        }
        let waker = Waker::from(flag.clone());
        let mut cx = Context::from_waker(&waker);
        yield_now();
        IN_POLL.with(|p| p.set(true));
        reg::note_order(2);
        let out = subj.poll(&mut cx);
        IN_POLL.with(|p| p.set(false));
        POLLS.fetch_add(1, Ordering::Relaxed);
        polls += 1;
        if polls == 1 {
            gate.open();
        }
        match out {
            Out::TryJoined(r) => {
                reg::note_order(7);
                match (r, fail_ix) {
                    (Ok(v), None) => assert_eq!(v, (0..n).collect::<Vec<_>>(), "C04/C07: try_join_all result"),
                    (Err(e), Some(f)) => assert_eq!(e, f, "C07: try_join_all error"),
                    (r, f) => panic!("C07: try_join_all answered {:?} with failing input {:?}", r.map(|v| v.len()), f),
                }
                break;
            }
            Out::Done => {
                reg::note_order(8);
                for (ch, _, _) in &chans {
                    assert!(ch.st.lock().unwrap().done, "C10: for_each_concurrent completed before every future finished");
                }
                break;
            }
            Out::TryItem(r) => {
                let i = match r {
                    Ok(i) => {
                        assert!(fail_ix != Some(i), "C10: failing future yielded Ok");
                        i
                    }
                    Err(i) => {
                        assert!(fail_ix == Some(i), "C10: succeeding future yielded Err");
                        i
                    }
                };
                reg::note_order(10 + i as u64);
                assert!(!got_futs[i], "C02: output of child {} yielded twice", i);
                got_futs[i] = true;
                collected += 1;
            }
            Out::Joined(v) => {
                reg::note_order(6);
                assert_eq!(v, (0..n).collect::<Vec<_>>(), "C04/C07: join_all result");
                break;
            }
            Out::Fut(i) => {
                reg::note_order(10 + i as u64);
                assert!(!got_futs[i], "C02: output of child {} yielded twice", i);
                got_futs[i] = true;
                collected += 1;
            }
            Out::Item(i, q) => {
                reg::note_order(100 + ((i as u64) << 8) + q as u64);
                assert_eq!(next_seq[i], q, "C11: source {} out of order", i);
                next_seq[i] += 1;
                collected += 1;
            }
            Out::End => {
                reg::note_order(3);
                if pushed == n {
                    assert_eq!(collected, expected_items, "C02/C11: ended with outputs missing");
                    break;
                }
                match &mut subj {
                    Subj::Fub(s) => s.push(mk_fut(pushed)),
                    Subj::Fu(s) => s.push(mk_fut(pushed)),
                    Subj::Fo(s) => s.push_back(mk_fut(pushed)),
                    Subj::Mu(s) => s.push(mk_stream(pushed)),
                    Subj::Fob(s) => s.push_back(mk_fut(pushed)),
                    Subj::Mb(_) | Subj::Bu(_) | Subj::Bo(_) | Subj::Ja(_) | Subj::Tja(_) | Subj::Fec(_) | Subj::Tbu(_) => unreachable!(),
                }
                pushed += 1;
                continue;
            }
            Out::Pending => {
                reg::note_order(4);
                PENDINGS.fetch_add(1, Ordering::Relaxed);
                // push the rest before sleeping, if any (a push is followed by a poll)
                if pushed < n {
                    match &mut subj {
                        Subj::Fub(s) => s.push(mk_fut(pushed)),
                        Subj::Fu(s) => s.push(mk_fut(pushed)),
                        Subj::Fo(s) => s.push_back(mk_fut(pushed)),
                        Subj::Mu(s) => s.push(mk_stream(pushed)),
                        Subj::Fob(s) => s.push_back(mk_fut(pushed)),
                        Subj::Mb(_) | Subj::Bu(_) | Subj::Bo(_) | Subj::Ja(_) | Subj::Tja(_) | Subj::Fec(_) | Subj::Tbu(_) => unreachable!(),
                    }
                    pushed += 1;
                    continue;
                }
                // sleep until the task waker of *this* poll fires
                flag.wait();
            }
        }
        if pushed < n && rng.gen_bool(0.5) {
            match &mut subj {
                Subj::Fub(s) => s.push(mk_fut(pushed)),
                Subj::Fu(s) => s.push(mk_fut(pushed)),
                Subj::Fo(s) => s.push_back(mk_fut(pushed)),
                Subj::Mu(s) => s.push(mk_stream(pushed)),
                Subj::Fob(s) => s.push_back(mk_fut(pushed)),
                Subj::Mb(_) | Subj::Bu(_) | Subj::Bo(_) | Subj::Ja(_) | Subj::Tja(_) | Subj::Fec(_) | Subj::Tbu(_) => unreachable!(),
            }
            pushed += 1;
        }
    }
    if early {
        EARLY_DROPS.fetch_add(1, Ordering::Relaxed);
    }
    gate.open();
    drop(subj);
    COLLECTION_GONE.with(|p| p.set(true));
    gone_gate.open();
    reg::note_order(5);
    for h in handles {
        h.join().unwrap();
    }
    // every waker is gone now: whatever the children still stored
    for (ch, _, _) in &chans {
        let w = ch.st.lock().unwrap().waker.take();
        drop(w);
        assert!(!ch.st.lock().unwrap().polled_after_done, "C05: a finished child was polled again");
        assert!(!ATOMIC_POLLED_AFTER_DONE.swap(false, Ordering::Relaxed), "C05: a finished child was polled again");
    }
    drop(flag);
    reg::end_execution();
    let h = reg::order_hash();
    if let Ok(mut g) = ORDER_HASHES.lock() {
        let set = g.get_or_insert_with(Default::default);
        if set.len() < 4_000_000 {
            set.insert(h);
        }
    }
}


