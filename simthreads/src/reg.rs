#![allow(dead_code)]
//! Probe handler for L2/L3: shadow registry of waker blocks (same rules as L1's); under shuttle
//! every probe is also a plain scheduling point. Where the state lives comes from the facade.

use crate::facade::{switch, with_state};
use futures_buffered::verif::{Event, WakerOp};
use std::sync::atomic::{AtomicU64, Ordering};

#[derive(Clone, Debug)]
pub struct Block {
    base: usize,
    size: usize,
    align: usize,
    cap: usize,
    shadow: i64,
    /// wakers into this block held by the environment, from the environment's own books
    held: i64,
    /// threads that are inside a waker vtable call on this block right now (environment's books)
    inflight: Vec<u64>,
    released: bool,
    handle_alive: bool,
}

#[derive(Default)]
pub struct State {
    blocks: Vec<Block>,
    order: u64,
    active: bool,
}


static HITS: [AtomicU64; 9] = [
    AtomicU64::new(0),
    AtomicU64::new(0),
    AtomicU64::new(0),
    AtomicU64::new(0),
    AtomicU64::new(0),
    AtomicU64::new(0),
    AtomicU64::new(0),
    AtomicU64::new(0),
    AtomicU64::new(0),
];
static BLOCKS: AtomicU64 = AtomicU64::new(0);

pub fn install() {
    futures_buffered::verif::set_handler(handler);
}

pub fn begin_execution() {
    with_state(|s| {
        s.blocks.clear();
        s.order = 0xcbf29ce484222325;
        s.active = true;
    });
}

/// The environment took (+1) or gave up (-1) a waker whose data pointer is `addr`.
pub fn held(addr: usize, delta: i64) {
    with_state(|s| {
        if !s.active {
            return;
        }
        if let Some(b) = s.blocks.iter_mut().rev().find(|b| addr >= b.base && addr < b.base + b.size) {
            b.held += delta;
        }
    });
}

/// The calling thread enters (true) / leaves (false) a waker vtable call on the block at `addr`.
pub fn in_call(addr: usize, enter: bool) {
    let me = crate::facade::thread_token();
    with_state(|s| {
        if !s.active {
            return;
        }
        if let Some(b) = s.blocks.iter_mut().rev().find(|b| addr >= b.base && addr < b.base + b.size) {
            if enter {
                b.inflight.push(me);
            } else if let Some(i) = b.inflight.iter().position(|&t| t == me) {
                b.inflight.swap_remove(i);
            }
        }
    });
}

pub fn note_order(x: u64) {
    with_state(|s| {
        s.order = (s.order ^ x).wrapping_mul(0x100000001b3);
    });
}

pub fn order_hash() -> u64 {
    with_state(|s| s.order).unwrap_or(0)
}

pub fn hits_total() -> [u64; 9] {
    let mut h = [0; 9];
    for i in 0..9 {
        h[i] = HITS[i].load(Ordering::Relaxed);
    }
    h
}
pub fn blocks_total() -> u64 {
    BLOCKS.load(Ordering::Relaxed)
}

/// All handles and wakers are gone: every block must have been released exactly once.
pub fn end_execution() {
    let err = with_state(|s| {
        s.active = false;
        for b in &s.blocks {
            if !b.released {
                return Some(format!(
                    "C03 block-leak: waker block cap={} never released (shadow count {}, handle alive {})",
                    b.cap, b.shadow, b.handle_alive
                ));
            }
        }
        None
    })
    .flatten();
    if let Some(e) = err {
        panic!("{}", e);
    }
}

fn handler(e: &Event) {
    let mut sw = false;
    let err: Option<String> = with_state(|s| {
        let switch = &mut sw;
        if !s.active {
            return None;
        }
        match *e {
            Event::BlockAlloc { base, size, align, cap } => {
                BLOCKS.fetch_add(1, Ordering::Relaxed);
                // the allocator may hand out the address of a block released earlier in this execution
                s.blocks.retain(|b| !(b.released && b.base < base + size && base < b.base + b.size));
                s.blocks.push(Block {
                    base,
                    size,
                    align,
                    cap,
                    shadow: 1,
                    held: 0,
                    inflight: Vec::new(),
                    released: false,
                    handle_alive: true,
                });
                None
            }
            Event::BlockRelease { base, size, align } => {
                *switch = true;
                match s.blocks.iter_mut().rev().find(|b| b.base == base) {
                    None => Some("C03 release-unknown: release of an address that is not a waker block".to_string()),
                    Some(b) => {
                        if b.released {
                            return Some(format!("C03 double-release: waker block cap={} released twice", b.cap));
                        }
                        b.released = true;
                        let me = crate::facade::thread_token();
                        if b.inflight.iter().any(|&t| t != me) {
                            return Some(format!(
                                "C03 release-during-waker-call: waker block cap={} released by one thread while another thread is inside a waker call on it",
                                b.cap
                            ));
                        }
                        if b.held != 0 || b.handle_alive {
                            return Some(format!(
                                "C03 release-while-referenced: waker block cap={} released while {} wakers of the environment still point into it (collection handle alive: {})",
                                b.cap, b.held, b.handle_alive
                            ));
                        }
                        if b.size != size || b.align != align {
                            return Some(format!("C03 release-layout: waker block cap={} released with another layout", b.cap));
                        }
                        None
                    }
                }
            }
            Event::WakerEnter { op, item } => {
                *switch = true;
                s.order = (s.order ^ (0x20 + op as u64)).wrapping_mul(0x100000001b3);
                match s.blocks.iter_mut().rev().find(|b| item >= b.base && item < b.base + b.size) {
                    Some(b) if !b.released => {
                        match op {
                            WakerOp::Clone => b.shadow += 1,
                            WakerOp::Drop => b.shadow -= 1,
                            _ => {}
                        }
                        None
                    }
                    Some(b) => Some(format!(
                        "C03 use-after-release: waker {:?} entered on waker block cap={} which is already released",
                        op, b.cap
                    )),
                    None => Some(format!("C03 wild-waker: waker {:?} entered on an unknown block", op)),
                }
            }
            Event::WakerResolved { item, header } => {
                match s.blocks.iter().rev().find(|b| item >= b.base && item < b.base + b.size) {
                    Some(b) if b.base != header => Some(format!("C03 wrong-header: waker block cap={}", b.cap)),
                    _ => None,
                }
            }
            Event::HandleUse { base } => {
                *switch = true;
                match s.blocks.iter().rev().find(|b| b.base == base) {
                    Some(b) if !b.released => None,
                    _ => Some("C03 handle-use-after-release: collection used its waker block after it was released".to_string()),
                }
            }
            Event::HandleDrop { base } => {
                *switch = true;
                match s.blocks.iter_mut().rev().find(|b| b.base == base) {
                    Some(b) if !b.released && b.handle_alive => {
                        b.handle_alive = false;
                        b.shadow -= 1;
                        None
                    }
                    _ => Some("C03 handle-drop-after-release".to_string()),
                }
            }
            Event::Hit(h) => {
                HITS[h as usize].fetch_add(1, Ordering::Relaxed);
                None
            }
        }
    })
    .flatten();
    let do_switch = sw;
    if let Some(e) = err {
        if !std::thread::panicking() {
            panic!("{}", e);
        }
        return;
    }
    if do_switch && !std::thread::panicking() {
        switch();
    }
}
