#![allow(dead_code)]
//! Probe handler for L2/L3: shadow registry of waker blocks (same rules as L1's); under shuttle
//! every probe is also a plain scheduling point. Where the state lives comes from the facade.

use crate::facade::{switch, with_state};
use futures_buffered::verif::{Event, WakerOp};
use std::sync::atomic::{AtomicU64, Ordering};

#[derive(Clone, Debug)]
pub struct Block {
    base: usize,
    size: usize,
    align: usize,
    cap: usize,
    shadow: i64,
    released: bool,
    handle_alive: bool,
}

#[derive(Default)]
pub struct State {
    blocks: Vec<Block>,
    order: u64,
    active: bool,
}


static HITS: [AtomicU64; 9] = [
    AtomicU64::new(0),
    AtomicU64::new(0),
    AtomicU64::new(0),
    AtomicU64::new(0),
    AtomicU64::new(0),
    AtomicU64::new(0),
    AtomicU64::new(0),
    AtomicU64::new(0),
    AtomicU64::new(0),
];
static BLOCKS: AtomicU64 = AtomicU64::new(0);

pub fn install() {
    futures_buffered::verif::set_handler(handler);
}

pub fn begin_execution() {
    with_state(|s| {
        s.blocks.clear();
        s.order = 0xcbf29ce484222325;
        s.active = true;
    });
}

pub fn note_order(x: u64) {
    with_state(|s| {
        s.order = (s.order ^ x).wrapping_mul(0x100000001b3);
    });
}

pub fn order_hash() -> u64 {
    with_state(|s| s.order).unwrap_or(0)
}

pub fn hits_total() -> [u64; 9] {
    let mut h = [0; 9];
    for i in 0..9 {
        h[i] = HITS[i].load(Ordering::Relaxed);
    }
    h
}
pub fn blocks_total() -> u64 {
    BLOCKS.load(Ordering::Relaxed)
}

/// All handles and wakers are gone: every block must have been released exactly once.
pub fn end_execution() {
    let err = with_state(|s| {
        s.active = false;
        for b in &s.blocks {
            if !b.released {
                return Some(format!(
                    "C03 block-leak: waker block cap={} never released (shadow count {}, handle alive {})",
                    b.cap, b.shadow, b.handle_alive
                ));
            }
        }
        None
    })
    .flatten();
    if let Some(e) = err {
        panic!("{}", e);
    }
}

fn handler(e: &Event) {
    let mut sw = false;
    let err: Option<String> = with_state(|s| {
        let switch = &mut sw;
        if !s.active {
            return None;
        }
        match *e {
            Event::BlockAlloc { base, size, align, cap } => {
                BLOCKS.fetch_add(1, Ordering::Relaxed);
                // the allocator may hand out the address of a block released earlier in this execution
                s.blocks.retain(|b| !(b.released && b.base < base + size && base < b.base + b.size));
                s.blocks.push(Block {
                    base,
                    size,
                    align,
                    cap,
                    shadow: 1,
                    released: false,
                    handle_alive: true,
                });
                None
            }
            Event::BlockRelease { base, size, align } => {
                *switch = true;
                match s.blocks.iter_mut().rev().find(|b| b.base == base) {
                    None => Some("C03 release-unknown: release of an address that is not a waker block".to_string()),
                    Some(b) => {
                        if b.released {
                            return Some(format!("C03 double-release: waker block cap={} released twice", b.cap));
                        }
                        b.released = true;
                        if b.shadow != 0 {
                            return Some(format!(
                                "C03 release-while-referenced: waker block cap={} released while {} references are outstanding",
                                b.cap, b.shadow
                            ));
                        }
                        if b.size != size || b.align != align {
                            return Some(format!("C03 release-layout: waker block cap={} released with another layout", b.cap));
                        }
                        None
                    }
                }
            }
            Event::WakerEnter { op, item } => {
                *switch = true;
                s.order = (s.order ^ (0x20 + op as u64)).wrapping_mul(0x100000001b3);
                match s.blocks.iter_mut().rev().find(|b| item >= b.base && item < b.base + b.size) {
                    Some(b) if !b.released => {
                        match op {
                            WakerOp::Clone => b.shadow += 1,
                            WakerOp::Drop => b.shadow -= 1,
                            _ => {}
                        }
                        if b.shadow < 0 {
                            return Some(format!("C03 refcount-underflow: waker block cap={}", b.cap));
                        }
                        None
                    }
                    Some(b) => Some(format!(
                        "C03 use-after-release: waker {:?} entered on waker block cap={} which is already released",
                        op, b.cap
                    )),
                    None => Some(format!("C03 wild-waker: waker {:?} entered on an unknown block", op)),
                }
            }
            Event::WakerResolved { item, header } => {
                match s.blocks.iter().rev().find(|b| item >= b.base && item < b.base + b.size) {
                    Some(b) if b.base != header => Some(format!("C03 wrong-header: waker block cap={}", b.cap)),
                    _ => None,
                }
            }
            Event::HandleUse { base } => {
                *switch = true;
                match s.blocks.iter().rev().find(|b| b.base == base) {
                    Some(b) if !b.released => None,
                    _ => Some("C03 handle-use-after-release: collection used its waker block after it was released".to_string()),
                }
            }
            Event::HandleDrop { base } => {
                *switch = true;
                match s.blocks.iter_mut().rev().find(|b| b.base == base) {
                    Some(b) if !b.released && b.handle_alive => {
                        b.handle_alive = false;
                        b.shadow -= 1;
                        None
                    }
                    _ => Some("C03 handle-drop-after-release".to_string()),
                }
            }
            Event::Hit(h) => {
                HITS[h as usize].fetch_add(1, Ordering::Relaxed);
                None
            }
        }
    })
    .flatten();
    let do_switch = sw;
    if let Some(e) = err {
        if !std::thread::panicking() {
            panic!("{}", e);
        }
        return;
    }
    if do_switch && !std::thread::panicking() {
        switch();
    }
}
