#!/usr/bin/env python3-vt
"""Validate MANIFEST.json and every evidence file against the given schemas."""
import json, sys, glob, jsonschema
ok = True
m = json.load(open('/verif/MANIFEST.json'))
jsonschema.validate(m, json.load(open('/root/.vp/MANIFEST.schema.json')))
es = json.load(open('/root/.vp/EVIDENCE.schema.json'))
for f in sorted(glob.glob('/verif/evidence/C*.json')):
    try:
        jsonschema.validate(json.load(open(f)), es)
    except Exception as e:
        ok = False
        print('INVALID', f, str(e)[:300])
print('manifest ok; evidence', 'ok' if ok else 'INVALID')
sys.exit(0 if ok else 1)
