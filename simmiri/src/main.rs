//! fbmiri — layer L3: the scenario of L2 on real `std::thread`s, meant to be run under Miri
//! (`-Zmiri-many-seeds`), whose seeded scheduler, weak-memory emulation, data-race detector,
//! borrow tracker and leak checker decide. The crate runs exactly as shipped: real `spin`, real
//! cordyceps / diatomic-waker, no probe handler installed (a handler would add synchronisation
//! that hides races from Miri).
//!
//!   fbmiri <Liveness|Lifetime> <workload-seed> <executions> [threads] [children]

#[allow(dead_code)]
mod facade {
    pub use std::sync::{Condvar, Mutex};
    pub use std::thread::spawn;
    /// Under Miri a yield hands the CPU to the waker threads until they are all done, which removes
    /// every interleaving; preemption (-Zmiri-preemption-rate) decides instead.
    pub fn yield_now() {}
    use std::sync::atomic::{AtomicU64, Ordering};

    pub fn switch() {}
    pub fn thread_token() -> u64 {
        0
    }
    /// Under Miri all threads run at the same pace, so ungated waker threads are done before the
    /// first poll; start most of them at the first poll instead.
    pub const GATE_PROB: f64 = 0.9;

    pub static WORKLOAD_SEED: AtomicU64 = AtomicU64::new(1);

    pub struct SimpleRng(u64);
    pub fn thread_rng() -> SimpleRng {
        // one stream per execution, advanced by the main thread only
        let s = WORKLOAD_SEED.fetch_add(0x9E37_79B9_7F4A_7C15, Ordering::Relaxed);
        SimpleRng(s)
    }
    impl SimpleRng {
        fn next(&mut self) -> u64 {
            self.0 = self.0.wrapping_add(0x9E37_79B9_7F4A_7C15);
            let mut z = self.0;
            z = (z ^ (z >> 30)).wrapping_mul(0xBF58_476D_1CE4_E5B9);
            z = (z ^ (z >> 27)).wrapping_mul(0x94D0_49BB_1331_11EB);
            z ^ (z >> 31)
        }
    }
    pub trait SampleRange<T> {
        fn sample(self, x: u64) -> T;
    }
    impl SampleRange<usize> for std::ops::Range<usize> {
        fn sample(self, x: u64) -> usize {
            self.start + (x % (self.end - self.start) as u64) as usize
        }
    }
    impl SampleRange<usize> for std::ops::RangeInclusive<usize> {
        fn sample(self, x: u64) -> usize {
            *self.start() + (x % (*self.end() - *self.start() + 1) as u64) as usize
        }
    }
    impl SampleRange<u32> for std::ops::Range<u32> {
        fn sample(self, x: u64) -> u32 {
            self.start + (x % (self.end - self.start) as u64) as u32
        }
    }
    pub trait Rng {
        fn gen_range<T, R: SampleRange<T>>(&mut self, r: R) -> T;
        fn gen_bool(&mut self, p: f64) -> bool;
    }
    impl Rng for SimpleRng {
        fn gen_range<T, R: SampleRange<T>>(&mut self, r: R) -> T {
            let x = self.next();
            r.sample(x >> 11)
        }
        fn gen_bool(&mut self, p: f64) -> bool {
            ((self.next() >> 11) as f64 / (1u64 << 53) as f64) < p
        }
    }
    /// No probe state in L3: the interpreter itself is the monitor.
    pub fn with_state<R>(_f: impl FnOnce(&mut crate::reg::State) -> R) -> Option<R> {
        None
    }
}
#[path = "../../simthreads/src/reg.rs"]
mod reg;
#[path = "../../simthreads/src/scenario.rs"]
mod scenario;

use std::sync::atomic::Ordering;

fn main() {
    let args: Vec<String> = std::env::args().collect();
    let mode = match args.get(1).map(|s| s.as_str()) {
        Some("Lifetime") => scenario::Mode::Lifetime,
        _ => scenario::Mode::Liveness,
    };
    let seed: u64 = args.get(2).and_then(|s| s.parse().ok()).unwrap_or(1);
    let execs: u64 = args.get(3).and_then(|s| s.parse().ok()).unwrap_or(1);
    let threads: usize = args.get(4).and_then(|s| s.parse().ok()).unwrap_or(2);
    let children: usize = args.get(5).and_then(|s| s.parse().ok()).unwrap_or(3);
    facade::WORKLOAD_SEED.store(seed.wrapping_mul(0xD6E8_FEB8_6659_FD93) | 1, Ordering::Relaxed);
    for _ in 0..execs {
        scenario::scenario(mode, threads, children);
    }
    println!(
        "fbmiri ok mode={:?} seed={} executions={} polls={} pendings={} parks={} wakes={} wakes_during_poll={} stale={} after_drop={} early_drops={}",
        mode,
        seed,
        scenario::EXECS.load(Ordering::Relaxed),
        scenario::POLLS.load(Ordering::Relaxed),
        scenario::PENDINGS.load(Ordering::Relaxed),
        scenario::PARKS.load(Ordering::Relaxed),
        scenario::WAKES.load(Ordering::Relaxed),
        scenario::WAKES_DURING_POLL.load(Ordering::Relaxed),
        scenario::STALE_WAKES.load(Ordering::Relaxed),
        scenario::WAKES_AFTER_DROP.load(Ordering::Relaxed),
        scenario::EARLY_DROPS.load(Ordering::Relaxed),
    );
}
